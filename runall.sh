#!/bin/sh
# maintenance helper: run every claimed check (two at a time), print one line each
tier=${1:-quick}
ids=$(python3 -c "import json;print(' '.join(c['property_id'] for c in json.load(open('/verif/MANIFEST.json'))['checks']))")
[ -n "$2" ] && ids="$2"
echo $ids | tr ' ' '\n' | xargs -P 2 -I{} sh -c "/verif/check {} $tier > /tmp/chk_{}.txt 2>&1; echo {} exit=\$? \$(tail -1 /tmp/chk_{}.txt)"
