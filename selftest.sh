#!/bin/bash
# Must-fail corpus: every seeded property-breaking change under /verif/seeded/<id>/ is applied to a scratch copy of
# /repo and the checks named in its expected.json must report a VIOLATION (exit 1). Nothing is written to /repo.
# usage: selftest.sh [id ...]      (default: all)
export GOFLAGS=-mod=mod GOPROXY=off GOSUMDB=off GOTOOLCHAIN=local
[ -x /verif/bin/govc ] || (mkdir -p /verif/bin && cd /verif/govc && go build -o /verif/bin/govc .) || exit 2
ids=${@:-$(ls /verif/seeded)}
scratch=$(mktemp -d ${TMPDIR:-/var/tmp}/govc-selftest.XXXXXX)
trap 'rm -rf "$scratch"' EXIT
mkdir -p $scratch/verif/evidence $scratch/verif/replays
for f in specs props.json known_findings.json baseline; do ln -s /verif/$f $scratch/verif/$f; done
fail=0
for id in $ids; do
  d=/verif/seeded/$id
  [ -f $d/patch.diff ] || continue
  rm -rf $scratch/repo; mkdir $scratch/repo
  (cd /repo && git ls-files -z | xargs -0 cp --parents -t $scratch/repo) || exit 2
  if ! (cd $scratch/repo && patch -s -p1 < $d/patch.diff); then echo "SELFTEST $id: patch does not apply"; fail=1; continue; fi
  props=$(python3 -c "import json;print(' '.join(json.load(open('$d/expected.json'))['caught_by']))")
  for p in $props; do
    GOVC_REPO=$scratch/repo GOVC_VERIF=$scratch/verif /verif/bin/govc check $p --tier quick > $scratch/out.txt 2>&1; rc=$?
    if [ $rc -eq 1 ] && grep -q '^VIOLATION' $scratch/out.txt; then
      echo "SELFTEST $id: check $p reports $(grep -c '^VIOLATION' $scratch/out.txt) violation(s) as expected ($(grep -m1 '^  obligation' $scratch/out.txt | cut -c14-120))"
    else
      echo "SELFTEST $id: check $p MISSED the seeded change (exit $rc)"; fail=1
    fi
  done
done
exit $fail
