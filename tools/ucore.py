#!/usr/bin/env python3
"""Debug aid: print the unsat core (named assertions) of a discharged obligation. usage: ucore.py <file.smt2> [timeout_s] [width]"""
import subprocess, re, sys
f = sys.argv[1]; to = sys.argv[2] if len(sys.argv) > 2 else '60'; w = int(sys.argv[3]) if len(sys.argv) > 3 else 300
lines = open(f).read().split('\n')
out = ['(set-option :produce-unsat-cores true)']; names = {}
for i, l in enumerate(lines):
    if l.startswith('(assert ') and l.endswith(')'):
        n = 'a%d' % i; names[n] = l; out.append('(assert (! %s :named %s))' % (l[8:-1], n))
    elif l.startswith('(get-value') or l.startswith('(get-model'):
        continue
    elif l.startswith('(check-sat'):
        out.append(l); out.append('(get-unsat-core)')
    else:
        out.append(l)
open('/tmp/ucore.smt2', 'w').write('\n'.join(out))
r = subprocess.run(['z3-new', '-T:' + to, '/tmp/ucore.smt2'], capture_output=True, text=True).stdout
print(r.split('\n')[0])
core = re.findall(r'a\d+', r.split('\n', 1)[1] if '\n' in r else '')
print(len(core), 'of', len(names))
for n in core: print(names[n][:w]); print('--')
