#!/usr/bin/env python3
"""Debug aid: minimise the set of assertions that makes a (vacuous) cover query unsat.
usage: mincore.py <file.smt2> [maxlen]"""
import subprocess, re, sys
f = sys.argv[1]
lines = open(f).read().split('\n')
idx = [i for i, l in enumerate(lines) if l.startswith('(assert ')]
tail = idx[-2:]
core = idx[:-2]
def run(keep):
    ks = set(keep) | set(tail)
    txt = '\n'.join(l for i, l in enumerate(lines) if not l.startswith('(assert ') or i in ks)
    txt = re.sub(r'\(get-value[^\n]*', '', txt)
    open('/tmp/mincore.smt2', 'w').write(txt)
    return subprocess.run(['z3-new', '-T:10', '/tmp/mincore.smt2'], capture_output=True, text=True).stdout.split('\n')[0]
if run(core) != 'unsat':
    print('not unsat'); sys.exit(0)
cur = core; n = 8
while len(cur) > 1:
    size = max(1, len(cur) // n); removed = False
    for s in range(0, len(cur), size):
        cand = cur[:s] + cur[s + size:]
        if cand and run(cand) == 'unsat':
            cur = cand; removed = True; n = max(n - 1, 2); break
    if not removed:
        if size == 1: break
        n = min(n * 2, len(cur))
w = int(sys.argv[2]) if len(sys.argv) > 2 else 300
print(len(cur))
for i in cur: print(lines[i][:w]); print('--')
