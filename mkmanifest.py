#!/usr/bin/env python3
# Regenerates MANIFEST.json from manifest_src.json (claimed checks + not_applicable with reasons).
import json, subprocess
src = json.load(open('/verif/manifest_src.json'))
props = [json.loads(l) for l in open('/verif/properties.jsonl')]
checks = []
na = []
for p in props:
    pid = p['id']
    c = src['claimed'].get(pid)
    if c:
        checks.append({
            "property_id": pid,
            "quick_cmd": f"/verif/check {pid} quick",
            "thorough_cmd": f"/verif/check {pid} thorough",
            "evidence_file": f"/verif/evidence/{pid}.json",
            "replay_cmd_template": "/verif/bin/govc replay {path}",
            "engine": "govc",
            "level_claimed": {"category": c.get("category", "proof"), "text": c["text"], "design_ref": c.get("design_ref", "DESIGN.md §4 " + pid)},
            "level_note": c["note"],
            "technique": c.get("technique", "contract-based deductive verification: weakest-precondition VCs generated from go/ssa of /repo, contracts in zz_contracts_verif.go, discharged by z3/cvc5"),
        })
    else:
        na.append({"property_id": pid, "reason": src['not_applicable'].get(pid, "check not built yet in this round (contracts pending); no other technique substituted")})
try:
    commits = subprocess.check_output(['git', '-C', '/repo', 'log', '--format=%H %s', 'ddbfedf..HEAD'], text=True).strip().split('\n')
except Exception:
    commits = []
hook_commits = [c.split()[0] for c in commits if c and not c.split(' ', 1)[1].startswith('fix:')]
m = {
    "version": 1,
    "setup_cmd": "export GOFLAGS=-mod=mod GOPROXY=off GOSUMDB=off GOTOOLCHAIN=local; mkdir -p /verif/bin && cd /verif/govc && go build -o /verif/bin/govc . && cd /repo && go build ./... && go vet -tags verif ./... >/dev/null 2>&1; true",
    "hooks": {
        "guard": "verif",
        "enable": "go build tag 'verif': comment-only contract files <pkg>/zz_contracts_verif.go (//go:build verif) read by govc via packages.Load(-tags=verif); no runtime hook",
        "baseline_off_cmd": "cd /repo && GOFLAGS=-mod=mod GOPROXY=off GOSUMDB=off GOTOOLCHAIN=local go test -vet=off -count=1 ./...",
        "source_commits": hook_commits,
        "add_only": True,
    },
    "engines": [{"name": "govc", "path": "/verif/govc", "serves_properties": [c["property_id"] for c in checks],
                 "kind_free_text": "self-built VC generator over go/ssa (naive form) of /repo + Gobra-style //@ contracts + z3 4.8.12 / z3 5.1.0 / cvc5 1.0 portfolio"}],
    "checks": checks,
    "not_applicable": na,
    "notes": src.get("notes", ""),
}
json.dump(m, open('/verif/MANIFEST.json', 'w'), indent=1)
print(len(checks), "claimed;", len(na), "not claimed")
