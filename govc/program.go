package main

import (
	"fmt"
	"go/token"
	"go/types"
	"os"
	"path/filepath"
	"sort"
	"strings"
	"sync"

	"golang.org/x/tools/go/packages"
	"golang.org/x/tools/go/ssa"
	"golang.org/x/tools/go/ssa/ssautil"
)

const modulePath = "github.com/gr33nbl00d/caddy-revocation-validator"

type Program struct {
	Dir          string
	SpecDir      string
	Prog         *ssa.Program
	Pkgs         []*ssa.Package
	Funcs        map[string]*ssa.Function // repo functions by short id
	FuncFile     map[string]string        // short id -> repo-relative file
	Contracts    *Contracts
	pkgNames     map[string]bool
	pkgsByName   map[string][]*types.Package
	tags         map[string]int
	tagTypes     map[int]types.Type
	tagMu        sync.Mutex
	callOrdinals map[*ssa.Function]map[*ssa.CallCommon]int
	allocChecks  map[string]bool
	optimistic   map[string]bool // callees without contract that are treated as free of effects (second opinion of the check)
	allocBounds  map[string]int64
	idCache      map[*ssa.Function]string
	implCache    map[string][]types.Type
	specPrelude  string
	mu           sync.Mutex
}

func LoadProgram(dir, specDir string) (*Program, error) {
	cfg := &packages.Config{Mode: packages.LoadSyntax, Dir: dir, BuildFlags: []string{"-tags=verif"},
		Env: append(os.Environ(), "GOFLAGS=-mod=mod", "GOPROXY=off", "GOSUMDB=off", "GOTOOLCHAIN=local")}
	pkgs, err := packages.Load(cfg, "./...")
	if err != nil {
		return nil, err
	}
	var errs []string
	packages.Visit(pkgs, nil, func(p *packages.Package) {
		for _, e := range p.Errors {
			errs = append(errs, e.Error())
		}
	})
	if len(errs) > 0 {
		return nil, fmt.Errorf("package errors: %s", strings.Join(errs, "; "))
	}
	prog, spkgs := ssautil.Packages(pkgs, ssa.NaiveForm)
	prog.Build()
	p := &Program{Dir: dir, SpecDir: specDir, Prog: prog, Funcs: map[string]*ssa.Function{}, FuncFile: map[string]string{},
		Contracts: NewContracts(), pkgNames: map[string]bool{}, pkgsByName: map[string][]*types.Package{}, tags: map[string]int{},
		tagTypes: map[int]types.Type{}, callOrdinals: map[*ssa.Function]map[*ssa.CallCommon]int{}, allocChecks: map[string]bool{},
		allocBounds: map[string]int64{}, idCache: map[*ssa.Function]string{}, implCache: map[string][]types.Type{}}
	for _, sp := range spkgs {
		if sp != nil {
			p.Pkgs = append(p.Pkgs, sp)
		}
	}
	for _, tp := range prog.AllPackages() {
		p.pkgNames[tp.Pkg.Name()] = true
		p.pkgsByName[tp.Pkg.Name()] = append(p.pkgsByName[tp.Pkg.Name()], tp.Pkg)
	}
	// repo packages first in lookup order
	for name, l := range p.pkgsByName {
		sort.SliceStable(l, func(i, j int) bool {
			return strings.HasPrefix(l[i].Path(), modulePath) && !strings.HasPrefix(l[j].Path(), modulePath)
		})
		p.pkgsByName[name] = l
	}
	// index repo functions
	for fn := range ssautil.AllFunctions(prog) {
		if !p.isRepoFunc(fn) || fn.Blocks == nil || (fn.Synthetic != "" && fn.Name() != "init") {
			continue
		}
		id := p.FuncIDOf(fn)
		p.Funcs[id] = fn
		if pos := fn.Pos(); pos.IsValid() {
			p.FuncFile[id] = strings.TrimPrefix(prog.Fset.Position(pos).Filename, dir+"/")
		} else if fn.Parent() != nil {
			p.FuncFile[id] = p.FuncFile[p.FuncIDOf(fn.Parent())]
		}
		p.indexCalls(fn)
	}
	// anonymous functions inherit their parent's file
	for id, fn := range p.Funcs {
		if p.FuncFile[id] == "" {
			par := fn
			for par.Parent() != nil {
				par = par.Parent()
			}
			p.FuncFile[id] = strings.TrimPrefix(prog.Fset.Position(par.Pos()).Filename, dir+"/")
		}
	}
	// contracts inside the repository (comment-only files behind the build tag)
	for _, pk := range pkgs {
		for _, f := range pk.GoFiles {
			if strings.HasSuffix(f, "zz_contracts_verif.go") {
				p.Contracts.ParseContractFile(f, pk.Types.Name(), false)
			}
		}
	}
	// assumed contracts of dependencies
	specs, _ := filepath.Glob(filepath.Join(specDir, "*.spec"))
	sort.Strings(specs)
	for _, s := range specs {
		p.Contracts.ParseContractFile(s, "", true)
	}
	return p, nil
}

func (p *Program) isRepoFunc(fn *ssa.Function) bool {
	if fn.Pkg != nil {
		return strings.HasPrefix(fn.Pkg.Pkg.Path(), modulePath)
	}
	if fn.Parent() != nil {
		return p.isRepoFunc(fn.Parent())
	}
	if o := fn.Object(); o != nil && o.Pkg() != nil {
		return strings.HasPrefix(o.Pkg().Path(), modulePath)
	}
	return false
}

// FuncIDOf: short id "pkg.Func", "pkg.Type.Method", closures "parent$n".
func (p *Program) FuncIDOf(fn *ssa.Function) string {
	p.mu.Lock()
	defer p.mu.Unlock()
	return p.funcIDOf(fn)
}

func (p *Program) funcIDOf(fn *ssa.Function) string {
	if id, ok := p.idCache[fn]; ok {
		return id
	}
	var id string
	if fn.Parent() != nil {
		par := fn.Parent()
		n := 0
		for i, a := range par.AnonFuncs {
			if a == fn {
				n = i + 1
			}
		}
		id = fmt.Sprintf("%s$%d", p.funcIDOf(par), n)
	} else if o, ok := fn.Object().(*types.Func); ok && o != nil {
		id = p.methodID(o)
		if strings.Contains(fn.Synthetic, "bound method") || strings.HasSuffix(fn.Name(), "$bound") {
			id += "$bound"
		} else if strings.Contains(fn.Synthetic, "thunk") {
			id += "$thunk"
		}
	} else if fn.Pkg != nil && fn.Name() == "init" {
		id = fn.Pkg.Pkg.Name() + ".init"
		if !strings.HasPrefix(fn.Pkg.Pkg.Path(), modulePath) {
			id = fn.Pkg.Pkg.Path() + ".init"
		}
	} else {
		id = fn.String()
	}
	p.idCache[fn] = id
	return id
}

func (p *Program) methodID(o *types.Func) string {
	pkg := ""
	if o.Pkg() != nil {
		pkg = o.Pkg().Name()
	}
	sig := o.Type().(*types.Signature)
	if r := sig.Recv(); r != nil {
		t := r.Type()
		if pt, ok := t.(*types.Pointer); ok {
			t = pt.Elem()
		}
		if n, ok := t.(*types.Named); ok {
			if n.Obj().Pkg() != nil {
				pkg = n.Obj().Pkg().Name()
			} else {
				pkg = "builtin"
			}
			return pkg + "." + n.Obj().Name() + "." + o.Name()
		}
		return pkg + ".?." + o.Name()
	}
	return pkg + "." + o.Name()
}

// indexCalls numbers the call sites of fn per callee short name in source order.
func (p *Program) indexCalls(fn *ssa.Function) {
	type cs struct {
		c    *ssa.CallCommon
		pos  token.Pos
		name string
		seq  int
	}
	var all []cs
	seq := 0
	for _, b := range fn.Blocks {
		for _, in := range b.Instrs {
			ci, ok := in.(ssa.CallInstruction)
			if !ok {
				continue
			}
			c := ci.Common()
			if _, isB := c.Value.(*ssa.Builtin); isB && !c.IsInvoke() {
				continue
			}
			id, _ := p.calleeIDNoLock(c)
			name := labelName(id)
			seq++
			all = append(all, cs{c, in.Pos(), name, seq})
		}
	}
	sort.SliceStable(all, func(i, j int) bool {
		if all[i].pos != all[j].pos && all[i].pos.IsValid() && all[j].pos.IsValid() {
			return all[i].pos < all[j].pos
		}
		return all[i].seq < all[j].seq
	})
	m := map[*ssa.CallCommon]int{}
	cnt := map[string]int{}
	for _, c := range all {
		cnt[c.name]++
		m[c.c] = cnt[c.name]
	}
	p.callOrdinals[fn] = m
}

func (p *Program) calleeIDNoLock(c *ssa.CallCommon) (string, *ssa.Function) {
	if c.IsInvoke() {
		return p.methodID(c.Method), nil
	}
	switch f := c.Value.(type) {
	case *ssa.Function:
		return p.funcIDOf(f), f
	case *ssa.MakeClosure:
		fn := f.Fn.(*ssa.Function)
		return p.funcIDOf(fn), fn
	}
	return "", nil
}

// lookupContract: exact id, then the interface contract an implementation inherits is handled elsewhere,
// then wildcard entries "pkg.*" / "pkg.Type.*".
var pureInit = &FuncContract{ID: "*.init", Pure: true, IsSpec: true, Loops: map[int]*LoopContract{}}

func (p *Program) lookupContract(id string) *FuncContract {
	if id == "" {
		return nil
	}
	if strings.HasSuffix(id, ".init") {
		if _, repo := p.Funcs[id]; !repo {
			return pureInit
		}
	}
	if fc, ok := p.Contracts.Funcs[id]; ok {
		return fc
	}
	base := strings.TrimSuffix(strings.TrimSuffix(id, "$bound"), "$thunk")
	if base != id {
		if fc, ok := p.Contracts.Funcs[base]; ok {
			return fc
		}
	}
	parts := strings.Split(base, ".")
	for i := len(parts) - 1; i >= 1; i-- {
		w := strings.Join(parts[:i], ".") + ".*"
		if fc, ok := p.Contracts.Funcs[w]; ok {
			return fc
		}
	}
	return nil
}

func (p *Program) resultNames(id string) []string {
	fn, ok := p.Funcs[id]
	if !ok {
		return nil
	}
	res := fn.Signature.Results()
	var out []string
	for i := 0; i < res.Len(); i++ {
		out = append(out, res.At(i).Name())
	}
	return out
}

func (p *Program) allocBound(id string) int64 {
	if b, ok := p.allocBounds[id]; ok {
		return b
	}
	return 81920 + 17
}

func (p *Program) SpecPrelude() string { return p.specPrelude }

// globalVarWriters: functions other than init that assign the variable itself.
func (p *Program) globalVarWriters(pkg, name string) []string {
	var out []string
	for id, fn := range p.Funcs {
		if fn.Name() == "init" && fn.Synthetic != "" {
			continue
		}
		for _, b := range fn.Blocks {
			for _, in := range b.Instrs {
				if st, ok := in.(*ssa.Store); ok {
					if g, ok := st.Addr.(*ssa.Global); ok && g.Name() == name && g.Pkg.Pkg.Name() == pkg {
						out = append(out, id)
					}
				}
			}
		}
	}
	sort.Strings(out)
	return out
}

// implementers: dynamic types (T or *T) of repository packages whose method set implements interface it.
// Used for the closed-world assumption on values of interfaces declared in the repository.
func (p *Program) implementers(it types.Type) []types.Type {
	key := typeKey(it)
	p.mu.Lock()
	if r, ok := p.implCache[key]; ok {
		p.mu.Unlock()
		return r
	}
	p.mu.Unlock()
	iface, ok := it.Underlying().(*types.Interface)
	if !ok {
		return nil
	}
	var out []types.Type
	for _, tp := range p.Prog.AllPackages() {
		sc := tp.Pkg.Scope()
		for _, n := range sc.Names() {
			tn, ok := sc.Lookup(n).(*types.TypeName)
			if !ok || tn.IsAlias() {
				continue
			}
			t := tn.Type()
			if _, isI := t.Underlying().(*types.Interface); isI {
				continue
			}
			if nt, ok := t.(*types.Named); ok && nt.TypeParams().Len() > 0 {
				continue
			}
			if types.Implements(t, iface) {
				out = append(out, t)
			}
			if types.Implements(types.NewPointer(t), iface) {
				out = append(out, types.NewPointer(t))
			}
		}
	}
	p.mu.Lock()
	p.implCache[key] = out
	p.mu.Unlock()
	return out
}

func (p *Program) isRepoInterface(t types.Type) bool {
	n, ok := t.(*types.Named)
	if !ok || n.Obj().Pkg() == nil {
		return false
	}
	if _, isI := n.Underlying().(*types.Interface); !isI {
		return false
	}
	return strings.HasPrefix(n.Obj().Pkg().Path(), modulePath)
}

func (p *Program) rwMutexType() types.Type {
	for _, tp := range p.pkgsByName["sync"] {
		if tn, ok := tp.Scope().Lookup("RWMutex").(*types.TypeName); ok {
			return tn.Type()
		}
	}
	return types.Typ[types.Int]
}

// goTargetFuncs: functions started with a go statement anywhere in the repository.
func (p *Program) goTargetFuncs() map[*ssa.Function]bool {
	out := map[*ssa.Function]bool{}
	for _, fn := range p.Funcs {
		for _, b := range fn.Blocks {
			for _, in := range b.Instrs {
				if g, ok := in.(*ssa.Go); ok {
					switch v := g.Call.Value.(type) {
					case *ssa.Function:
						out[v] = true
					case *ssa.MakeClosure:
						out[v.Fn.(*ssa.Function)] = true
					}
				}
			}
		}
	}
	return out
}

// globalWriters: repo functions (other than init) that store to a package-level variable or update a
// map loaded directly from it. A global with an invariant must have none.
func (p *Program) globalWriters(pkg, name string) []string {
	var out []string
	isG := func(v ssa.Value) bool {
		g, ok := v.(*ssa.Global)
		return ok && g.Name() == name && g.Pkg.Pkg.Name() == pkg
	}
	fromG := func(v ssa.Value) bool {
		if u, ok := v.(*ssa.UnOp); ok {
			return isG(u.X)
		}
		return false
	}
	for id, fn := range p.Funcs {
		if fn.Name() == "init" && fn.Synthetic != "" {
			continue
		}
		for _, b := range fn.Blocks {
			for _, in := range b.Instrs {
				switch x := in.(type) {
				case *ssa.Store:
					root := x.Addr
					for {
						if fa, ok := root.(*ssa.FieldAddr); ok {
							root = fa.X
							continue
						}
						if ia, ok := root.(*ssa.IndexAddr); ok {
							root = ia.X
							continue
						}
						break
					}
					if isG(root) {
						out = append(out, id)
					}
				case *ssa.MapUpdate:
					if fromG(x.Map) {
						out = append(out, id)
					}
				case ssa.CallInstruction:
					c := x.Common()
					if bi, ok := c.Value.(*ssa.Builtin); ok && (bi.Name() == "delete" || bi.Name() == "clear") && len(c.Args) > 0 && fromG(c.Args[0]) {
						out = append(out, id)
					}
					// address of the global escaping into a call
					for _, a := range c.Args {
						if isG(a) {
							out = append(out, id+" (address passed to a call)")
						}
					}
				}
			}
		}
	}
	sort.Strings(out)
	return out
}

// implementers returns repo methods implementing the interface method id "pkg.Iface.Method".
func (p *Program) ifaceOf(fn *ssa.Function) []string {
	o, ok := fn.Object().(*types.Func)
	if !ok || o == nil {
		return nil
	}
	sig := o.Type().(*types.Signature)
	if sig.Recv() == nil {
		return nil
	}
	rt := sig.Recv().Type()
	var out []string
	for _, sp := range p.Pkgs {
		sc := sp.Pkg.Scope()
		for _, n := range sc.Names() {
			tn, ok := sc.Lookup(n).(*types.TypeName)
			if !ok {
				continue
			}
			it, ok := tn.Type().Underlying().(*types.Interface)
			if !ok {
				continue
			}
			if !types.Implements(rt, it) && !types.Implements(types.NewPointer(rt), it) {
				continue
			}
			for i := 0; i < it.NumMethods(); i++ {
				if it.Method(i).Name() == o.Name() {
					out = append(out, sp.Pkg.Name()+"."+tn.Name()+"."+o.Name())
				}
			}
		}
	}
	sort.Strings(out)
	return out
}
