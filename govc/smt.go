package main

// SMT term construction and the solver portfolio.

import (
	"bytes"
	"context"
	"fmt"
	"math/big"
	"os"
	"os/exec"
	"path/filepath"
	"strings"
	"sync"
	"time"
)

// Sort is an SMT-LIB sort written out.
type Sort string

const (
	SInt  Sort = "Int"
	SBool Sort = "Bool"
	SStr  Sort = "Str" // uninterpreted sort, see prelude
)

func ArraySort(k, v Sort) Sort { return Sort(fmt.Sprintf("(Array %s %s)", k, v)) }

// Term is an SMT-LIB term with its sort.
type Term struct {
	S    string
	Sort Sort
}

func (t Term) String() string { return t.S }

func T(sort Sort, format string, args ...interface{}) Term {
	return Term{S: fmt.Sprintf(format, args...), Sort: sort}
}

var (
	True  = Term{"true", SBool}
	False = Term{"false", SBool}
)

func IntLit(v int64) Term {
	if v < 0 {
		return Term{fmt.Sprintf("(- %d)", -big.NewInt(v).Int64()), SInt}
	}
	return Term{fmt.Sprintf("%d", v), SInt}
}

func BigLit(v *big.Int) Term {
	if v.Sign() < 0 {
		return Term{fmt.Sprintf("(- %s)", new(big.Int).Neg(v).String()), SInt}
	}
	return Term{v.String(), SInt}
}

func BoolLit(b bool) Term {
	if b {
		return True
	}
	return False
}

func Not(a Term) Term {
	switch a.S {
	case "true":
		return False
	case "false":
		return True
	}
	if strings.HasPrefix(a.S, "(not ") && balanced(a.S[5:len(a.S)-1]) {
		return Term{a.S[5 : len(a.S)-1], SBool}
	}
	return Term{"(not " + a.S + ")", SBool}
}

func balanced(s string) bool {
	d := 0
	for i, c := range s {
		switch c {
		case '(':
			d++
		case ')':
			d--
			if d < 0 {
				return false
			}
			if d == 0 && i != len(s)-1 {
				return false
			}
		case ' ':
			if d == 0 {
				return false
			}
		}
	}
	return d == 0
}

func And(ts ...Term) Term {
	var out []string
	for _, t := range ts {
		if t.S == "true" {
			continue
		}
		if t.S == "false" {
			return False
		}
		out = append(out, t.S)
	}
	switch len(out) {
	case 0:
		return True
	case 1:
		return Term{out[0], SBool}
	}
	return Term{"(and " + strings.Join(out, " ") + ")", SBool}
}

func Or(ts ...Term) Term {
	var out []string
	for _, t := range ts {
		if t.S == "false" {
			continue
		}
		if t.S == "true" {
			return True
		}
		out = append(out, t.S)
	}
	switch len(out) {
	case 0:
		return False
	case 1:
		return Term{out[0], SBool}
	}
	return Term{"(or " + strings.Join(out, " ") + ")", SBool}
}

func Implies(a, b Term) Term {
	if a.S == "true" {
		return b
	}
	if a.S == "false" || b.S == "true" {
		return True
	}
	return Term{"(=> " + a.S + " " + b.S + ")", SBool}
}

func Eq(a, b Term) Term {
	if a.S == b.S {
		return True
	}
	return Term{"(= " + a.S + " " + b.S + ")", SBool}
}

func Ite(c, a, b Term) Term {
	if c.S == "true" {
		return a
	}
	if c.S == "false" {
		return b
	}
	if a.S == b.S {
		return a
	}
	return Term{"(ite " + c.S + " " + a.S + " " + b.S + ")", a.Sort}
}

func isNumLit(s string) bool {
	if s == "" {
		return false
	}
	for _, c := range s {
		if c < '0' || c > '9' {
			return false
		}
	}
	return true
}

func Bin(sort Sort, op string, a, b Term) Term {
	if sort == SInt && (op == "+" || op == "-") {
		if b.S == "0" {
			return a
		}
		if op == "+" && a.S == "0" {
			return b
		}
		if isNumLit(a.S) && isNumLit(b.S) && len(a.S) < 18 && len(b.S) < 18 {
			var x, y int64
			fmt.Sscan(a.S, &x)
			fmt.Sscan(b.S, &y)
			if op == "+" {
				return IntLit(x + y)
			}
			return IntLit(x - y)
		}
	}
	return Term{"(" + op + " " + a.S + " " + b.S + ")", sort}
}

func Select(arr, idx Term, elem Sort) Term {
	return Term{"(select " + arr.S + " " + idx.S + ")", elem}
}

func Store(arr, idx, v Term) Term {
	return Term{"(store " + arr.S + " " + idx.S + " " + v.S + ")", arr.Sort}
}

// arrayElemSort returns V for "(Array K V)".
func arrayElemSort(s Sort) Sort {
	str := string(s)
	if !strings.HasPrefix(str, "(Array ") {
		panic("not an array sort: " + str)
	}
	inner := str[7 : len(str)-1]
	// first component may itself be parenthesised
	d := 0
	for i, c := range inner {
		switch c {
		case '(':
			d++
		case ')':
			d--
		case ' ':
			if d == 0 {
				return Sort(inner[i+1:])
			}
		}
	}
	panic("bad array sort " + str)
}

func arrayKeySort(s Sort) Sort {
	str := string(s)
	inner := str[7 : len(str)-1]
	d := 0
	for i, c := range inner {
		switch c {
		case '(':
			d++
		case ')':
			d--
		case ' ':
			if d == 0 {
				return Sort(inner[:i])
			}
		}
	}
	panic("bad array sort " + str)
}

func quoteSym(s string) string {
	simple := true
	for _, c := range s {
		if !(c >= 'a' && c <= 'z' || c >= 'A' && c <= 'Z' || c >= '0' && c <= '9' || c == '_' || c == '.' || c == '@' || c == '$' || c == '!') {
			simple = false
			break
		}
	}
	if simple && len(s) > 0 && !(s[0] >= '0' && s[0] <= '9') {
		return s
	}
	s = strings.ReplaceAll(s, "|", "!")
	s = strings.ReplaceAll(s, "\\", "!")
	return "|" + s + "|"
}

// Prelude common to every query.
const preludeInt = `
(declare-sort Str 0)
(declare-fun strlen (Str) Int)
(declare-fun strat (Str Int) Int)
(declare-fun str_concat (Str Str) Str)
(declare-fun str_lower (Str) Str)
(declare-fun str_hasprefix (Str Str) Bool)
(declare-fun str_lt (Str Str) Bool)
(declare-fun str_fold (Str Str) Bool)
(declare-fun bytes2str ((Array Int Int) Int Int) Str)
(declare-const str_empty Str)
(declare-const zarr.Str (Array Int Str))
(assert (= (strlen str_empty) 0))
(declare-fun rtype (Int) Int)
(declare-fun band (Int Int) Int)
(declare-fun bor (Int Int) Int)
(declare-fun bxor (Int Int) Int)
(declare-fun bshr (Int Int) Int)
(define-fun tdiv ((x Int) (y Int)) Int (ite (>= x 0) (ite (> y 0) (div x y) (- (div x (- y)))) (ite (> y 0) (- (div (- x) y)) (div (- x) (- y)))))
(define-fun tmod ((x Int) (y Int)) Int (- x (* y (tdiv x y))))
`

// ---------------------------------------------------------------- solving

type SolveResult struct {
	Status string // "unsat", "sat", "unknown", "timeout", "error"
	Solver string
	Time   float64
	Output string
	Model  map[string]string
}

type solverSpec struct {
	name string
	args func(file string, timeout time.Duration) []string
}

var solvers = []solverSpec{
	{"z3-5.1.0", func(f string, to time.Duration) []string {
		return []string{"z3-new", fmt.Sprintf("-T:%d", int(to.Seconds())+1), f}
	}},
	{"z3-4.8.12", func(f string, to time.Duration) []string {
		return []string{"/usr/bin/z3", fmt.Sprintf("-T:%d", int(to.Seconds())+1), f}
	}},
	{"cvc5-1.0", func(f string, to time.Duration) []string {
		return []string{"cvc5", "--produce-models", fmt.Sprintf("--tlimit=%d", int(to.Milliseconds())), f}
	}},
}

// runSolver runs one solver on one file.
func runSolver(ctx context.Context, sp solverSpec, file string, timeout time.Duration) SolveResult {
	args := sp.args(file, timeout)
	cctx, cancel := context.WithTimeout(ctx, timeout+2*time.Second)
	defer cancel()
	cmd := exec.CommandContext(cctx, args[0], args[1:]...)
	var out bytes.Buffer
	cmd.Stdout = &out
	cmd.Stderr = &out
	start := time.Now()
	_ = cmd.Run()
	el := time.Since(start).Seconds()
	txt := out.String()
	first := strings.TrimSpace(strings.SplitN(txt, "\n", 2)[0])
	res := SolveResult{Solver: sp.name, Time: el, Output: txt}
	switch first {
	case "unsat":
		res.Status = "unsat"
	case "sat":
		res.Status = "sat"
		res.Model = parseGetValue(txt)
	case "unknown":
		res.Status = "unknown"
	case "timeout":
		res.Status = "timeout"
	default:
		if cctx.Err() != nil {
			res.Status = "timeout"
		} else if strings.Contains(txt, "timeout") {
			res.Status = "timeout"
		} else {
			res.Status = "error"
		}
	}
	return res
}

// parseGetValue parses "((name value) (name value))" blocks after "sat".
func parseGetValue(txt string) map[string]string {
	m := map[string]string{}
	i := strings.Index(txt, "\n")
	if i < 0 {
		return m
	}
	rest := txt[i+1:]
	toks := tokenizeSexp(rest)
	// expect ( ( name value ) ... )
	pos := 0
	var parseOne func() string
	parseOne = func() string {
		if pos >= len(toks) {
			return ""
		}
		if toks[pos] == "(" {
			pos++
			var parts []string
			for pos < len(toks) && toks[pos] != ")" {
				parts = append(parts, parseOne())
			}
			pos++
			return "(" + strings.Join(parts, " ") + ")"
		}
		t := toks[pos]
		pos++
		return t
	}
	for pos < len(toks) {
		if toks[pos] != "(" {
			pos++
			continue
		}
		pos++ // outer (
		for pos < len(toks) && toks[pos] == "(" {
			pos++
			name := parseOne()
			val := parseOne()
			if pos < len(toks) && toks[pos] == ")" {
				pos++
			}
			m[name] = val
		}
		if pos < len(toks) && toks[pos] == ")" {
			pos++
		}
	}
	return m
}

func tokenizeSexp(s string) []string {
	var toks []string
	i := 0
	for i < len(s) {
		c := s[i]
		switch {
		case c == '(' || c == ')':
			toks = append(toks, string(c))
			i++
		case c == ' ' || c == '\n' || c == '\t' || c == '\r':
			i++
		case c == '|':
			j := i + 1
			for j < len(s) && s[j] != '|' {
				j++
			}
			toks = append(toks, s[i:min(j+1, len(s))])
			i = j + 1
		case c == '"':
			j := i + 1
			for j < len(s) && s[j] != '"' {
				j++
			}
			toks = append(toks, s[i:min(j+1, len(s))])
			i = j + 1
		default:
			j := i
			for j < len(s) && !strings.ContainsRune("() \n\t\r", rune(s[j])) {
				j++
			}
			toks = append(toks, s[i:j])
			i = j
		}
	}
	return toks
}

// Portfolio runs all solvers in parallel on a query and returns the first definitive answer.
// If both is set, it waits for two agreeing definitive answers (thorough tier).
func Portfolio(query string, dir string, name string, timeout time.Duration, both bool) (SolveResult, []SolveResult) {
	// the default configurations and the alternative quantifier-instantiation strategies run side by side: an
	// obligation that only an alternative strategy decides is then decided in that strategy's own time, not after
	// the default configurations have used up their timeout (which made such obligations fragile under load)
	return portfolioWith(append(append([]solverSpec{}, solvers...), altSolvers...), query, dir, name, timeout, both, false)
}

var altSolvers = []solverSpec{
	{"z3-5.1.0/nombqi", func(f string, to time.Duration) []string {
		return []string{"z3-new", fmt.Sprintf("-T:%d", int(to.Seconds())+1), "smt.mbqi=false", "smt.random_seed=7", f}
	}},
	{"z3-4.8.12/seed", func(f string, to time.Duration) []string {
		return []string{"/usr/bin/z3", fmt.Sprintf("-T:%d", int(to.Seconds())+1), "smt.random_seed=13", "smt.qi.eager_threshold=50", f}
	}},
	{"cvc5-1.0/enum", func(f string, to time.Duration) []string {
		return []string{"cvc5", "--produce-models", "--enum-inst", fmt.Sprintf("--tlimit=%d", int(to.Milliseconds())), f}
	}},
}

func portfolioWith(solvers []solverSpec, query string, dir string, name string, timeout time.Duration, both bool, allowSecond bool) (SolveResult, []SolveResult) {
	file := filepath.Join(dir, name+".smt2")
	if err := os.WriteFile(file, []byte(query), 0o644); err != nil {
		return SolveResult{Status: "error", Output: err.Error()}, nil
	}
	ctx, cancel := context.WithCancel(context.Background())
	defer cancel()
	ch := make(chan SolveResult, len(solvers))
	var wg sync.WaitGroup
	for _, sp := range solvers {
		wg.Add(1)
		go func(sp solverSpec) {
			defer wg.Done()
			ch <- runSolver(ctx, sp, file, timeout)
		}(sp)
	}
	go func() { wg.Wait(); close(ch) }()
	var all []SolveResult
	var first *SolveResult
	var grace <-chan time.Time
loop:
	for {
		var r SolveResult
		var ok bool
		select {
		case r, ok = <-ch:
			if !ok {
				break loop
			}
		case <-grace:
			// thorough tier: a second solver gets three times the first one's time (at least 5 s) to confirm or contradict
			cancel()
			break loop
		}
		all = append(all, r)
		if r.Status == "unsat" || r.Status == "sat" {
			if first == nil {
				rr := r
				first = &rr
				if !both {
					cancel()
					break loop
				}
				w := time.Duration(rr.Time*3*float64(time.Second)) + 5*time.Second
				grace = time.After(w)
			} else {
				if r.Status == first.Status && strings.SplitN(r.Solver, "/", 2)[0] == strings.SplitN(first.Solver, "/", 2)[0] {
					continue // same solver binary with another strategy: not an independent confirmation
				}
				if r.Status != first.Status {
					return SolveResult{Status: "error", Solver: first.Solver + "+" + r.Solver,
						Output: "solver disagreement: " + first.Status + " vs " + r.Status}, all
				}
				first.Solver = first.Solver + "+" + r.Solver
				cancel()
				break loop
			}
		}
	}
	if first != nil {
		return *first, all
	}
	// none definitive: second round with other quantifier-instantiation strategies (fast "unknown" answers are
	// typically an instantiation strategy giving up, not a hard problem)
	if allowSecond {
		alt := []solverSpec{
			{"z3-5.1.0/nombqi", func(f string, to time.Duration) []string {
				return []string{"z3-new", fmt.Sprintf("-T:%d", int(to.Seconds())+1), "smt.mbqi=false", "smt.random_seed=7", f}
			}},
			{"z3-4.8.12/seed", func(f string, to time.Duration) []string {
				return []string{"/usr/bin/z3", fmt.Sprintf("-T:%d", int(to.Seconds())+1), "smt.random_seed=13", "smt.qi.eager_threshold=50", f}
			}},
			{"cvc5-1.0/enum", func(f string, to time.Duration) []string {
				return []string{"cvc5", "--produce-models", "--enum-inst", fmt.Sprintf("--tlimit=%d", int(to.Milliseconds())), f}
			}},
		}
		var maxT float64
		for _, r := range all {
			if r.Time > maxT {
				maxT = r.Time
			}
		}
		if maxT < timeout.Seconds()*0.8 || true {
			r2, all2 := portfolioWith(alt, query, dir, name+".r2", timeout, both, false)
			if r2.Status == "unsat" || r2.Status == "sat" {
				return r2, append(all, all2...)
			}
		}
	}
	best := SolveResult{Status: "unknown", Solver: "all"}
	var outs []string
	for _, r := range all {
		outs = append(outs, r.Solver+": "+r.Status)
		if r.Time > best.Time {
			best.Time = r.Time
		}
		if r.Status == "timeout" {
			best.Status = "timeout"
		}
	}
	best.Output = strings.Join(outs, "; ")
	return best, all
}
