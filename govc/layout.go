package main

// Value layout: every Go value is a flat vector of SMT terms ("leaves") determined by its type.

import (
	"fmt"
	"go/types"
	"math/big"
	"strings"

	"golang.org/x/tools/go/ssa"
)

type leafKind int

const (
	kInt   leafKind = iota // sized integer
	kBool                  //
	kStr                   //
	kRef                   // pointer / map / chan / func reference, 0 = nil
	kSlArr                 // slice: backing array ref
	kSlOff                 // slice: offset into backing array
	kSlLen                 //
	kSlCap                 //
	kIfTag                 // interface: dynamic type tag, 0 = nil interface
	kIfRef                 // interface: payload ref
	kBig                   // math/big.Int value (mathematical integer)
	kTime                  // time.Time (abstract instant, 0 = zero time)
	kOpaque                // anything else treated as an uninterpreted integer
	kArr                   // fixed-size array of scalars: (Array Int Int)
	kFloat
)

type Leaf struct {
	Path string
	Sort Sort
	Kind leafKind
	T    types.Type // Go type of the scalar (for integer ranges)
}

var layoutCache = map[string][]Leaf{}

func typeKey(t types.Type) string {
	return types.TypeString(t, nil) + "|" + typeID(t)
}

func isNamed(t types.Type, pkgPath, name string) bool {
	n, ok := t.(*types.Named)
	if !ok {
		return false
	}
	o := n.Obj()
	return o.Name() == name && o.Pkg() != nil && o.Pkg().Path() == pkgPath
}

// opaqueKind returns the leaf kind for named types modelled as one abstract scalar.
func opaqueKind(t types.Type) (leafKind, bool) {
	switch {
	case isNamed(t, "math/big", "Int"):
		return kBig, true
	case isNamed(t, "time", "Time"):
		return kTime, true
	case isNamed(t, "sync", "Mutex"), isNamed(t, "sync", "RWMutex"), isNamed(t, "sync", "Once"), isNamed(t, "sync", "WaitGroup"):
		return kOpaque, true
	case isNamed(t, "strings", "Builder"), isNamed(t, "bytes", "Buffer"), isNamed(t, "net/http", "Client"):
		return kOpaque, true
	}
	return 0, false
}

func Layout(t types.Type) []Leaf {
	key := typeKey(t)
	if l, ok := layoutCache[key]; ok {
		return l
	}
	l := computeLayout(t, 0)
	layoutCache[key] = l
	return l
}

func computeLayout(t types.Type, depth int) []Leaf {
	if k, ok := opaqueKind(t); ok {
		return []Leaf{{"", SInt, k, t}}
	}
	switch u := t.Underlying().(type) {
	case *types.Basic:
		switch {
		case u.Info()&types.IsBoolean != 0:
			return []Leaf{{"", SBool, kBool, t}}
		case u.Info()&types.IsInteger != 0:
			return []Leaf{{"", SInt, kInt, t}}
		case u.Info()&types.IsString != 0:
			return []Leaf{{"", SStr, kStr, t}}
		case u.Info()&types.IsFloat != 0:
			return []Leaf{{"", SInt, kFloat, t}}
		case u.Kind() == types.UnsafePointer:
			return []Leaf{{"", SInt, kRef, t}}
		case u.Kind() == types.UntypedNil:
			return []Leaf{{"", SInt, kRef, t}}
		}
		return []Leaf{{"", SInt, kOpaque, t}}
	case *types.Pointer, *types.Map, *types.Chan, *types.Signature:
		return []Leaf{{"", SInt, kRef, t}}
	case *types.Slice:
		return []Leaf{{"arr", SInt, kSlArr, t}, {"off", SInt, kSlOff, t}, {"len", SInt, kSlLen, t}, {"cap", SInt, kSlCap, t}}
	case *types.Interface:
		return []Leaf{{"tag", SInt, kIfTag, t}, {"ref", SInt, kIfRef, t}}
	case *types.Array:
		return []Leaf{{"", ArraySort(SInt, SInt), kArr, t}}
	case *types.Struct:
		var out []Leaf
		for i := 0; i < u.NumFields(); i++ {
			f := u.Field(i)
			for _, l := range computeLayout(f.Type(), depth+1) {
				p := f.Name()
				if l.Path != "" {
					p += "." + l.Path
				}
				out = append(out, Leaf{p, l.Sort, l.Kind, l.T})
			}
		}
		return out
	case *types.Tuple:
		var out []Leaf
		for i := 0; i < u.Len(); i++ {
			for _, l := range computeLayout(u.At(i).Type(), depth+1) {
				p := fmt.Sprintf("%d", i)
				if l.Path != "" {
					p += "." + l.Path
				}
				out = append(out, Leaf{p, l.Sort, l.Kind, l.T})
			}
		}
		return out
	}
	return []Leaf{{"", SInt, kOpaque, t}}
}

// fieldRange returns the leaf offset and count of field i of struct type t.
func fieldRange(t types.Type, i int) (off, n int) {
	st := t.Underlying().(*types.Struct)
	for j := 0; j < i; j++ {
		off += len(Layout(st.Field(j).Type()))
	}
	return off, len(Layout(st.Field(i).Type()))
}

func tupleRange(t *types.Tuple, i int) (off, n int) {
	for j := 0; j < i; j++ {
		off += len(Layout(t.At(j).Type()))
	}
	return off, len(Layout(t.At(i).Type()))
}

// typeID is a short stable identifier for heap component names.
func typeID(t types.Type) string {
	switch u := t.(type) {
	case *types.Basic:
		switch u.Kind() {
		case types.Uint8:
			return "uint8"
		case types.Int32:
			return "int32"
		}
		return u.Name()
	case *types.Pointer:
		return "*" + typeID(u.Elem())
	case *types.Slice:
		return "[]" + typeID(u.Elem())
	case *types.Array:
		return fmt.Sprintf("[%d]%s", u.Len(), typeID(u.Elem()))
	case *types.Map:
		return "map[" + typeID(u.Key()) + "]" + typeID(u.Elem())
	case *types.Alias:
		return typeID(types.Unalias(u))
	}
	return types.TypeString(t, func(p *types.Package) string { return p.Name() })
}

func intRange(t types.Type) (lo, hi *big.Int, ok bool) {
	b, isB := t.Underlying().(*types.Basic)
	if !isB || b.Info()&types.IsInteger == 0 {
		return nil, nil, false
	}
	bits := 64
	signed := true
	switch b.Kind() {
	case types.Int8:
		bits = 8
	case types.Int16:
		bits = 16
	case types.Int32:
		bits = 32
	case types.Int64, types.Int, types.UntypedInt, types.UntypedRune:
		bits = 64
	case types.Uint8:
		bits, signed = 8, false
	case types.Uint16:
		bits, signed = 16, false
	case types.Uint32:
		bits, signed = 32, false
	case types.Uint64, types.Uint, types.Uintptr:
		bits, signed = 64, false
	}
	one := big.NewInt(1)
	if signed {
		hi = new(big.Int).Sub(new(big.Int).Lsh(one, uint(bits-1)), one)
		lo = new(big.Int).Neg(new(big.Int).Lsh(one, uint(bits-1)))
	} else {
		lo = big.NewInt(0)
		hi = new(big.Int).Sub(new(big.Int).Lsh(one, uint(bits)), one)
	}
	return lo, hi, true
}

func intBits(t types.Type) (bits int, signed bool) {
	lo, hi, ok := intRange(t)
	if !ok {
		return 64, true
	}
	signed = lo.Sign() < 0
	bits = hi.BitLen()
	if signed {
		bits++
	}
	return
}

// wrapInt wraps a mathematical integer into the range of Go integer type t (two's complement).
func wrapInt(t types.Type, x Term) Term {
	lo, hi, ok := intRange(t)
	if !ok {
		return x
	}
	mod := new(big.Int).Add(new(big.Int).Sub(hi, lo), big.NewInt(1))
	if lo.Sign() == 0 {
		return Term{fmt.Sprintf("(mod %s %s)", x.S, mod), SInt}
	}
	neg := new(big.Int).Neg(lo)
	return Term{fmt.Sprintf("(let ((wx %s)) (ite (and (<= %s wx) (<= wx %s)) wx (- (mod (+ wx %s) %s) %s)))",
		x.S, BigLit(lo).S, hi, neg, mod, neg), SInt}
}

func inRange(t types.Type, x Term) Term {
	lo, hi, ok := intRange(t)
	if !ok {
		return True
	}
	return And(Bin(SBool, "<=", BigLit(lo), x), Bin(SBool, "<=", x, BigLit(hi)))
}

// ---------------------------------------------------------------- values

const (
	aCell = iota
	aHeap
	aElem
	aGlobal
)

type Addr struct {
	Kind   int
	Cell   *ssa.Alloc
	Ref    Term       // aHeap: object; aElem: backing array
	Root   types.Type // aHeap: type of the root object; aElem: element type; aCell: alloc elem type; aGlobal: global's type
	Idx    Term       // aElem: absolute index
	Global *ssa.Global
	Off    int        // leaf offset in Root's layout
	T      types.Type // type stored at this address
	Site   int        // local allocation site number (0 = none)
}

type Closure struct {
	Fn       *ssa.Function
	Bindings []Val
}

type Val struct {
	T    types.Type
	L    []Term
	Addr *Addr
	Clo  *Closure
	Dyn  types.Type // interfaces: statically known dynamic type (from MakeInterface)
}

func (v Val) scalar() Term {
	if len(v.L) != 1 {
		panic(fmt.Sprintf("scalar() on value with %d leaves (type %v)", len(v.L), v.T))
	}
	return v.L[0]
}

func zeroTerm(l Leaf) Term {
	switch l.Kind {
	case kBool:
		return False
	case kStr:
		return Term{"str_empty", SStr}
	case kArr:
		return Term{"((as const (Array Int Int)) 0)", l.Sort}
	}
	return IntLit(0)
}

func zeroVal(t types.Type) Val {
	ls := Layout(t)
	v := Val{T: t, L: make([]Term, len(ls))}
	for i, l := range ls {
		v.L[i] = zeroTerm(l)
	}
	return v
}

func sanitize(s string) string {
	r := strings.NewReplacer(" ", "", "*", "p!", "[", "<", "]", ">", "{", "<", "}", ">", "|", "!", "\\", "!", ";", ",", "\"", "'", "(", "<", ")", ">")
	return r.Replace(s)
}
