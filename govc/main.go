package main

import (
	"flag"
	"fmt"
	"os"
	"sort"
	"strings"
	"time"
)

func usage() {
	fmt.Fprintln(os.Stderr, `usage:
  govc verify [-v] [-keep] [-timeout 10s] <funcid>...   verify functions, print obligations
  govc list                                             list repo functions and contracts
  govc check <Cnn> [--tier quick|thorough]              run the check of one property
  govc replay <file>                                    re-run a replay file`)
	os.Exit(2)
}

func main() {
	if len(os.Args) < 2 {
		usage()
	}
	switch os.Args[1] {
	case "verify":
		cmdVerify(os.Args[2:])
	case "list":
		cmdList(os.Args[2:])
	case "check":
		os.Exit(cmdCheck(os.Args[2:]))
	case "replay":
		os.Exit(cmdReplay(os.Args[2:]))
	case "dump":
		cmdDump(os.Args[2:])
	case "selftest":
		os.Exit(cmdSelftest(os.Args[2:]))
	default:
		usage()
	}
}

func repoDir() string {
	if d := os.Getenv("GOVC_REPO"); d != "" {
		return d
	}
	return "/repo"
}

func verifDir() string {
	if d := os.Getenv("GOVC_VERIF"); d != "" {
		return d
	}
	return "/verif"
}

func cmdList(args []string) {
	p, err := LoadProgram(repoDir(), verifDir()+"/specs")
	if err != nil {
		fmt.Fprintln(os.Stderr, err)
		os.Exit(2)
	}
	var ids []string
	for id := range p.Funcs {
		ids = append(ids, id)
	}
	sort.Strings(ids)
	for _, id := range ids {
		c := ""
		if _, ok := p.Contracts.Funcs[id]; ok {
			c = " [contract]"
		}
		fmt.Printf("%-70s %s%s\n", id, p.FuncFile[id], c)
	}
	for _, e := range p.Contracts.Errors {
		fmt.Println("CONTRACT-ERROR:", e)
	}
}

func cmdVerify(args []string) {
	fs := flag.NewFlagSet("verify", flag.ExitOnError)
	verbose := fs.Bool("v", false, "print notes and failing queries")
	keep := fs.Bool("keep", false, "keep SMT files")
	timeout := fs.Duration("timeout", 10*time.Second, "per-solver timeout")
	both := fs.Bool("both", false, "require two solvers")
	allocAll := fs.Bool("alloc", false, "emit allocation-bound obligations")
	fs.Parse(args)
	p, err := LoadProgram(repoDir(), verifDir()+"/specs")
	if err != nil {
		fmt.Fprintln(os.Stderr, err)
		os.Exit(2)
	}
	for _, e := range p.Contracts.Errors {
		fmt.Println("CONTRACT-ERROR:", e)
	}
	var results []*FuncResult
	for _, id := range fs.Args() {
		var ids []string
		if strings.HasSuffix(id, "*") {
			for k := range p.Funcs {
				if strings.HasPrefix(k, strings.TrimSuffix(id, "*")) {
					ids = append(ids, k)
				}
			}
			sort.Strings(ids)
		} else {
			ids = []string{id}
		}
		for _, i := range ids {
			if *allocAll {
				p.allocChecks[i] = true
			}
			results = append(results, p.VerifyFunction(i))
		}
	}
	out := tmpOutDir()
	start := time.Now()
	SolveAll(results, SolveOptions{Timeout: *timeout, Both: *both, OutDir: out, Workers: 5})
	if !*keep {
		defer os.RemoveAll(out)
	} else {
		fmt.Println("SMT files in", out)
	}
	bad := 0
	for _, r := range results {
		fmt.Printf("== %s (%s)\n", r.ID, r.File)
		if r.Panic != "" {
			fmt.Println("  ENGINE-PANIC:", r.Panic)
		}
		for _, ce := range r.CErrors {
			fmt.Println("  CONTRACT-ERROR:", ce)
		}
		for _, o := range r.Obls {
			mark := "ok "
			if !o.OK() {
				mark = "FAIL"
				bad++
			}
			fmt.Printf("  %s %-60s %-8s %-12s %.2fs  %s\n", mark, strings.TrimPrefix(o.ID, r.ID), o.Result.Status, o.Result.Solver, o.Result.Time, o.Pos)
			if !o.OK() && *verbose {
				fmt.Printf("       %s\n", o.Desc)
				if len(o.Result.Model) > 0 {
					var ks []string
					for k := range o.Result.Model {
						ks = append(ks, k)
					}
					sort.Strings(ks)
					for _, k := range ks {
						fmt.Printf("       %s = %s\n", k, o.Result.Model[k])
					}
				} else if o.Result.Status != "sat" {
					fmt.Printf("       %s\n", strings.TrimSpace(o.Result.Output))
				}
			}
		}
		if *verbose {
			for _, n := range r.Notes {
				fmt.Println("  note:", n)
			}
			for _, n := range r.Used {
				fmt.Println("  used:", n)
			}
		}
	}
	fmt.Printf("%d obligations not discharged; %.1fs\n", bad, time.Since(start).Seconds())
}
