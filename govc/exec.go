package main

import (
	"fmt"
	"go/constant"
	"go/token"
	"go/types"
	"math/big"
	"regexp"
	"sort"
	"strings"

	"golang.org/x/tools/go/ssa"
)

type Frame struct {
	fn       *ssa.Function
	vals     map[ssa.Value]Val
	params   []Val
	freevars []Val
	top      bool
	id       int
	loops    map[*ssa.BasicBlock]int // loop header -> ordinal (source order)
}

type exitInfo struct {
	reach   Term
	st      *State
	results []Val
	instr   *ssa.Return
}

type edge struct {
	from  *ssa.BasicBlock
	cond  Term
	st    *State
}

// loopInfo computes back edges and loop ordinals (by source position of the header).
func loopHeaders(fn *ssa.Function) (map[*ssa.BasicBlock]int, map[[2]int]bool) {
	back := map[[2]int]bool{}
	heads := map[*ssa.BasicBlock]bool{}
	for _, b := range fn.Blocks {
		for _, s := range b.Succs {
			if s.Dominates(b) {
				back[[2]int{b.Index, s.Index}] = true
				heads[s] = true
			}
		}
	}
	var hs []*ssa.BasicBlock
	for h := range heads {
		hs = append(hs, h)
	}
	// order by source position of first positioned instruction, fall back to block index
	posOf := func(b *ssa.BasicBlock) token.Pos {
		// a loop's earliest position: min position over instructions of blocks in the loop is expensive;
		// the header's comment/instructions are good enough, ties broken by index.
		for _, in := range b.Instrs {
			if p := in.Pos(); p.IsValid() {
				return p
			}
		}
		return token.NoPos
	}
	sort.Slice(hs, func(i, j int) bool {
		pi, pj := posOf(hs[i]), posOf(hs[j])
		if pi != pj && pi.IsValid() && pj.IsValid() {
			return pi < pj
		}
		return hs[i].Index < hs[j].Index
	})
	ord := map[*ssa.BasicBlock]int{}
	for i, h := range hs {
		ord[h] = i + 1
	}
	return ord, back
}

// loopBlocks returns the natural loop of header h (all blocks that can reach a latch without passing h).
func loopBlocks(fn *ssa.Function, h *ssa.BasicBlock, back map[[2]int]bool) map[*ssa.BasicBlock]bool {
	in := map[*ssa.BasicBlock]bool{h: true}
	var stack []*ssa.BasicBlock
	for _, p := range h.Preds {
		if back[[2]int{p.Index, h.Index}] {
			if !in[p] {
				in[p] = true
				stack = append(stack, p)
			}
		}
	}
	for len(stack) > 0 {
		b := stack[len(stack)-1]
		stack = stack[:len(stack)-1]
		for _, p := range b.Preds {
			if !in[p] {
				in[p] = true
				stack = append(stack, p)
			}
		}
	}
	return in
}

func rpo(fn *ssa.Function, back map[[2]int]bool) []*ssa.BasicBlock {
	seen := map[*ssa.BasicBlock]bool{}
	var post []*ssa.BasicBlock
	var dfs func(b *ssa.BasicBlock)
	dfs = func(b *ssa.BasicBlock) {
		seen[b] = true
		for _, s := range b.Succs {
			if back[[2]int{b.Index, s.Index}] {
				continue
			}
			if !seen[s] {
				dfs(s)
			}
		}
		post = append(post, b)
	}
	dfs(fn.Blocks[0])
	if fn.Recover != nil && !seen[fn.Recover] {
		// recover block is only reachable through panics; not executed
	}
	for i, j := 0, len(post)-1; i < j; i, j = i+1, j-1 {
		post[i], post[j] = post[j], post[i]
	}
	return post
}

// runBody symbolically executes fn's CFG (loops cut at their headers) and returns the exits.
func (e *Engine) runBody(fr *Frame, st0 *State, reach0 Term) []exitInfo {
	fn := fr.fn
	loopOrd, back := loopHeaders(fn)
	fr.loops = loopOrd
	order := rpo(fn, back)
	incoming := map[*ssa.BasicBlock][]edge{}
	incoming[fn.Blocks[0]] = []edge{{nil, reach0, st0}}
	var exits []exitInfo
	var lc map[int]*LoopContract
	if fr.top && e.FC != nil {
		lc = e.FC.Loops
	}
	for _, b := range order {
		ins := incoming[b]
		if len(ins) == 0 {
			continue
		}
		var conds []Term
		var sts []*State
		for _, in := range ins {
			conds = append(conds, in.cond)
			sts = append(sts, in.st)
		}
		reach := Or(conds...)
		if reach.S == "false" {
			continue
		}
		if len(reach.S) > 60 {
			rc := e.fresh(fmt.Sprintf("reach.b%d", b.Index), SBool)
			e.assumes = append(e.assumes, Eq(rc, reach))
			reach = rc
		}
		st := e.mergeStates(conds, sts)
		// phis
		phiVals := map[*ssa.Phi]Val{}
		for _, in := range b.Instrs {
			phi, ok := in.(*ssa.Phi)
			if !ok {
				break
			}
			var vs []Val
			var cs []Term
			for _, inc := range ins {
				if inc.from == nil {
					continue
				}
				for pi, p := range b.Preds {
					if p == inc.from {
						vs = append(vs, e.valueOf(fr, st, phi.Edges[pi]))
						cs = append(cs, inc.cond)
						break
					}
				}
			}
			if len(vs) == 0 {
				phiVals[phi] = zeroVal(phi.Type())
				continue
			}
			phiVals[phi] = e.mergeVals("phi."+phi.Name(), cs, vs, st, reach)
		}
		for p, v := range phiVals {
			fr.vals[p] = v
		}
		// loop header: cut
		if ord, isHead := loopOrd[b]; isHead {
			var contract *LoopContract
			if lc != nil {
				contract = lc[ord]
			}
			reach = e.cutLoopEntry(fr, b, ord, contract, st, reach, phiVals, back)
		}
		// instructions
		alive := true
		for _, in := range b.Instrs {
			if _, ok := in.(*ssa.Phi); ok {
				continue
			}
			if p := in.Pos(); p.IsValid() {
				e.curPos = p
			}
			switch x := in.(type) {
			case *ssa.If:
				c := e.valueOf(fr, st, x.Cond).scalar()
				c = e.define("br", c)
				e.addEdge(fr, incoming, back, b, b.Succs[0], And(reach, c), st.clone(), lc)
				e.addEdge(fr, incoming, back, b, b.Succs[1], And(reach, Not(c)), st, lc)
			case *ssa.Jump:
				e.addEdge(fr, incoming, back, b, b.Succs[0], reach, st, lc)
			case *ssa.Return:
				var rs []Val
				for _, r := range x.Results {
					rs = append(rs, e.valueOf(fr, st, r))
				}
				exits = append(exits, exitInfo{reach, st, rs, x})
			case *ssa.Panic:
				e.safety("panic", "explicit", reach, False)
				alive = false
			default:
				reach = e.execInstr(fr, st, reach, in)
				if reach.S == "false" {
					alive = false
				}
			}
			if !alive {
				break
			}
		}
	}
	return exits
}

func (e *Engine) addEdge(fr *Frame, incoming map[*ssa.BasicBlock][]edge, back map[[2]int]bool, from, to *ssa.BasicBlock, cond Term, st *State, lc map[int]*LoopContract) {
	if cond.S == "false" {
		return
	}
	if back[[2]int{from.Index, to.Index}] {
		ord := fr.loops[to]
		var contract *LoopContract
		if lc != nil {
			contract = lc[ord]
		}
		e.cutLoopBack(fr, to, ord, contract, st, cond, from)
		return
	}
	// leaving a loop body: per-iteration postconditions must hold here too
	if lc != nil {
		for h, ord := range fr.loops {
			c := lc[ord]
			if c == nil || len(c.BodyEnsures) == 0 {
				continue
			}
			blocks := loopBlocks(fr.fn, h, back)
			if blocks[from] && !blocks[to] && from != h {
				name := fmt.Sprintf("loop%d", ord)
				e.checkBodyEnsures(fr, c, st, e.loopPre[name+fmt.Sprint(fr.id)], cond, name, "exit")
			}
		}
	}
	incoming[to] = append(incoming[to], edge{from, cond, st})
}

func (e *Engine) mergeVals(prefix string, conds []Term, vs []Val, st *State, reach Term) Val {
	if len(vs) == 1 {
		return vs[0]
	}
	// pointers with identical symbolic addresses stay symbolic; otherwise reify
	allAddr := true
	for _, v := range vs {
		if v.Addr == nil {
			allAddr = false
		}
	}
	if allAddr {
		same := true
		for _, v := range vs[1:] {
			if fmt.Sprint(*v.Addr) != fmt.Sprint(*vs[0].Addr) {
				same = false
			}
		}
		if same {
			return vs[0]
		}
	}
	n := 0
	var flats [][]Term
	for _, v := range vs {
		f := e.flat(st, reach, v)
		flats = append(flats, f)
		n = len(f)
	}
	out := Val{T: vs[0].T, L: make([]Term, n)}
	for i := 0; i < n; i++ {
		r := flats[len(flats)-1][i]
		same := true
		for j := len(flats) - 2; j >= 0; j-- {
			if flats[j][i].S != r.S {
				same = false
			}
		}
		if same {
			out.L[i] = r
			continue
		}
		for j := len(flats) - 2; j >= 0; j-- {
			r = Ite(conds[j], flats[j][i], r)
		}
		out.L[i] = e.define(prefix, r)
	}
	// closures: keep if all the same
	if vs[0].Clo != nil {
		same := true
		for _, v := range vs[1:] {
			if v.Clo == nil || v.Clo.Fn != vs[0].Clo.Fn {
				same = false
			}
		}
		if same {
			out.Clo = vs[0].Clo
		}
	}
	return out
}

// ---------------------------------------------------------------- loops

// loopWrites collects what the loop body may write: cells, heap component prefixes.
func (e *Engine) loopWrites(fr *Frame, st *State, blocks map[*ssa.BasicBlock]bool) (cells map[*ssa.Alloc]bool, comps []string, all bool, freshOnly map[string]bool) {
	cells = map[*ssa.Alloc]bool{}
	compSet := map[string]bool{}
	general := map[string]bool{}
	var stars []starEff
	defer func() {
		// "*param" effects: the target is a fresh object when the argument is a variable that the loop does
		// not assign and that currently holds one of this activation's allocation sites
		for _, sr := range stars {
			compSet[sr.comp] = true
			fresh := false
			if u, ok := sr.arg.(*ssa.UnOp); ok {
				if a, ok := u.X.(*ssa.Alloc); ok && !a.Heap && !cells[a] {
					if c, live := st.cells[a]; live && len(c) == 1 && siteTermRe.MatchString(c[0].S) {
						fresh = true
					}
				} else if ok && !a.Heap && blocks[a.Block()] {
					// a variable declared inside the loop that only ever holds objects allocated inside the loop
					onlyNew := true
					for _, ref := range *a.Referrers() {
						if sto, ok := ref.(*ssa.Store); ok && sto.Addr == a {
							if na, ok := sto.Val.(*ssa.Alloc); !ok || !blocks[na.Block()] {
								onlyNew = false
							}
						}
					}
					fresh = onlyNew
				}
			}
			if !fresh {
				general[sr.comp] = true
			}
		}
		comps = comps[:0]
		for c := range compSet {
			comps = append(comps, c)
		}
		sort.Strings(comps)
		freshOnly = map[string]bool{}
		for c := range compSet {
			if !general[c] {
				freshOnly[c] = true
			}
		}
	}()
	var rootAlloc func(v ssa.Value) (*ssa.Alloc, bool)
	rootAlloc = func(v ssa.Value) (*ssa.Alloc, bool) {
		switch x := v.(type) {
		case *ssa.Alloc:
			return x, true
		case *ssa.FieldAddr:
			return rootAlloc(x.X)
		case *ssa.IndexAddr:
			if _, ok := x.X.Type().Underlying().(*types.Pointer); ok {
				return rootAlloc(x.X)
			}
		}
		return nil, false
	}
	addTypeG := func(kind string, t types.Type, gen bool) {
		compSet[kind+"."+typeID(t)+"."] = true
		if gen {
			general[kind+"."+typeID(t)+"."] = true
		}
	}
	addType := func(kind string, t types.Type) { addTypeG(kind, t, true) }
	for b := range blocks {
		for _, in := range b.Instrs {
			switch x := in.(type) {
			case *ssa.Store:
				if a, ok := rootAlloc(x.Addr); ok && arrayElemOfPtr(a.Type()) != nil {
					// an array allocated inside the loop (varargs) is a fresh object in every iteration
					addTypeG("E", arrayElemOfPtr(a.Type()), !blocks[a.Block()])
				} else if ok && !a.Heap {
					cells[a] = true
				} else if ok && a.Heap {
					// a local variable of this activation: a fresh object whether it is declared inside or before the loop
					addTypeG("H", a.Type().(*types.Pointer).Elem(), false)
				} else {
					// store through arbitrary pointer: component determined by pointee root type
					switch y := x.Addr.(type) {
					case *ssa.FieldAddr:
						root := y.X
						for {
							if fa, ok := root.(*ssa.FieldAddr); ok {
								root = fa.X
								continue
							}
							break
						}
						if ia, ok := root.(*ssa.IndexAddr); ok {
							if sl, ok := ia.X.Type().Underlying().(*types.Slice); ok {
								addType("E", sl.Elem())
								continue
							}
							if at := arrayElemOfPtr(ia.X.Type()); at != nil {
								addType("E", at)
								continue
							}
						}
						if pt, ok := root.Type().Underlying().(*types.Pointer); ok {
							addType("H", pt.Elem())
						}
					case *ssa.IndexAddr:
						if sl, ok := y.X.Type().Underlying().(*types.Slice); ok {
							addType("E", sl.Elem())
						} else if at := arrayElemOfPtr(y.X.Type()); at != nil {
							addType("E", at)
						} else {
							all = true
						}
					case *ssa.Global:
						compSet["G."+y.Pkg.Pkg.Name()+"."+y.Name()+"."] = true
						general["G."+y.Pkg.Pkg.Name()+"."+y.Name()+"."] = true
					default:
						if pt, ok := x.Addr.Type().Underlying().(*types.Pointer); ok {
							addType("H", pt.Elem())
						} else {
							all = true
						}
					}
				}
			case *ssa.Next:
				if rg, ok := x.Iter.(*ssa.Range); ok {
					compSet["V.visited."+rg.Name()] = true
					general["V.visited."+rg.Name()] = true
				}
			case *ssa.MapUpdate:
				compSet["M."+typeID(x.Map.Type().Underlying())+"."] = true
				general["M."+typeID(x.Map.Type().Underlying())+"."] = true
			case *ssa.Alloc:
				if !x.Heap && arrayElemOfPtr(x.Type()) == nil {
					cells[x] = true
				} else if x.Heap && arrayElemOfPtr(x.Type()) == nil {
					// zero-initialisation of the per-iteration object
					addTypeG("H", x.Type().(*types.Pointer).Elem(), false)
				}
			case ssa.CallInstruction:
				if _, isGo := in.(*ssa.Go); isGo {
					continue
				}
				eff := e.calleeEffects(x)
				if eff.all {
					all = true
				}
				for _, sr := range eff.stars {
					stars = append(stars, sr)
				}
				for _, fo := range eff.freshOnly {
					compSet[fo] = true // not general: pre-existing objects keep their contents
				}
				for _, c := range eff.comps {
					compSet[c] = true
					general[c] = true
				}
				if bi, ok := x.Common().Value.(*ssa.Builtin); ok {
					switch bi.Name() {
					case "append":
						if sl, ok := x.Common().Args[0].Type().Underlying().(*types.Slice); ok {
							addType("E", sl.Elem())
						}
					case "copy":
						if sl, ok := x.Common().Args[0].Type().Underlying().(*types.Slice); ok {
							addType("E", sl.Elem())
						}
					case "delete":
						compSet["M."+typeID(x.Common().Args[0].Type().Underlying())+"."] = true
						general["M."+typeID(x.Common().Args[0].Type().Underlying())+"."] = true
					}
				}
			}
		}
	}
	for c := range compSet {
		comps = append(comps, c)
	}
	sort.Strings(comps)
	return
}

type loopCtx struct {
	entrySt   *State
	decEntry  Term
	hasDec    bool
}

func (e *Engine) loopEnv(fr *Frame, st *State, entry *State) *Env {
	env := e.newEnv(fr, st)
	env.loopEntry = entry
	return env
}

func (e *Engine) cutLoopEntry(fr *Frame, h *ssa.BasicBlock, ord int, lc *LoopContract, st *State, reach Term, phis map[*ssa.Phi]Val, back map[[2]int]bool) Term {
	name := fmt.Sprintf("loop%d", ord)
	if !fr.top {
		name = fr.fn.Name() + "." + name
	}
	pre := st.clone()
	e.curLoopState = st
	e.setIdx(fr, h)
	// termination: a loop that is not a range over a collection needs a decreases clause
	if fr.top && !isRangeLoop(h) && (lc == nil || (lc.Decreases == nil && !lc.Forever)) {
		e.oblige("dec", "dec.missing@"+name, "this loop is not a range over a collection and carries no decreases clause: nothing shows that it terminates", reach, False, nil)
	}
	// 1. invariants hold on entry
	if lc != nil {
		for i, inv := range lc.Invariants {
			env := e.loopEnv(fr, st, pre)
			c, err := env.evalBool(inv.E)
			lbl := inv.Label
			if lbl == "" {
				lbl = fmt.Sprint(i + 1)
			}
			if err != nil {
				e.contractError(inv, err)
				continue
			}
			o := e.oblige("inv.init", fmt.Sprintf("inv.init.%s@%s", lbl, name), inv.Text, reach, c, inv)
			if o != nil {
				o.Props = inv.Props
			}
		}
	} else if fr.top {
		e.note("loop %d of %s has no declared invariant (cut with invariant true)", ord, e.FuncID)
	}
	// auto invariant for range-index phis: phi >= entry value when it only ever grows by one
	type autoInv struct {
		phi *ssa.Phi
		lo  Term
	}
	var autos []autoInv
	for phi, v := range phis {
		if b, ok := phi.Type().Underlying().(*types.Basic); ok && b.Info()&types.IsInteger != 0 && len(v.L) == 1 {
			// find entry edge constant
			for pi, p := range h.Preds {
				if !back[[2]int{p.Index, h.Index}] {
					if c, ok := phi.Edges[pi].(*ssa.Const); ok && c.Value != nil {
						if iv, ok := constant.Int64Val(constant.ToInt(c.Value)); ok {
							autos = append(autos, autoInv{phi, IntLit(iv)})
						}
					}
				}
			}
		}
	}
	// 2. havoc what the loop writes
	blocks := loopBlocks(fr.fn, h, back)
	cells, comps, all, freshOnly := e.loopWrites(fr, st, blocks)
	before := st.clone()
	if lc != nil && len(lc.Assigns) > 0 {
		// loop frame: what one iteration may write that outlives it (anything else would be retained state)
		var extra []string
		if all {
			extra = append(extra, "*")
		}
		for _, cmp := range comps {
			ok := false
			for _, a := range lc.Assigns {
				if a == "*" || strings.HasPrefix(cmp, a) {
					ok = true
				}
			}
			if !ok {
				extra = append(extra, cmp)
			}
		}
		e.oblige("loopframe", fmt.Sprintf("loopframe@%s", name), "an iteration writes "+strings.Join(extra, ", ")+" which the loop's assigns clause does not allow (state retained across iterations)", reach, BoolLit(len(extra) == 0),
			&Clause{Kind: "loopassigns", Text: strings.Join(lc.Assigns, ", "), Src: e.FC.Src})
	}
	for a := range cells {
		if _, live := st.cells[a]; !live {
			continue
		}
		t := a.Type().(*types.Pointer).Elem()
		hv := e.havocVal(reach, "lh."+a.Comment, t)
		st.cells[a] = hv.L
	}
	if all {
		st.havocPrefix([]string{""}, false)
	} else if len(comps) > 0 {
		st.havocPrefix(comps, false)
		// components written only through per-iteration fresh objects: pre-existing objects keep their contents
		for name, old := range before.heap {
			for fo := range freshOnly {
				if strings.HasPrefix(name, fo) && strings.HasPrefix(string(old.Sort), "(Array") {
					nw := st.comp(name, old.Sort)
					if nw.S != old.S {
						e.assumes = append(e.assumes, T(SBool, "(forall ((fr Int)) (! (=> (<= fr alloc0) (= (select %s fr) (select %s fr))) :pattern ((select %s fr))))", nw, old, nw))
					}
				}
			}
		}
		oldBase := st.base
		st.base = func(name string, sort Sort) Term {
			nw := oldBase(name, sort)
			for fo := range freshOnly {
				if strings.HasPrefix(name, fo) && strings.HasPrefix(string(sort), "(Array") {
					old := before.comp(name, sort)
					if nw.S != old.S {
						e.assumes = append(e.assumes, T(SBool, "(forall ((fr Int)) (! (=> (<= fr alloc0) (= (select %s fr) (select %s fr))) :pattern ((select %s fr))))", nw, old, nw))
					}
				}
			}
			return nw
		}
	}
	// components the contract declares "fresh:" stay unchanged on objects that existed at function entry:
	// assumed at the loop head, re-checked on every back edge (an inductive invariant).
	if fr.top && e.FC != nil {
		for _, t := range e.freshFrameFacts(st) {
			e.assume(reach, t)
		}
	}
	for phi := range phis {
		hv := e.havocVal(reach, "lh."+phi.Name(), phi.Type())
		fr.vals[phi] = hv
	}
	for _, a := range autos {
		e.assume(reach, Bin(SBool, ">=", fr.vals[a.phi].scalar(), a.lo))
	}
	if ra := rangeIndexAlloc(h); ra != nil {
		if c, ok := st.cells[ra]; ok {
			e.assume(reach, And(Bin(SBool, ">=", c[0], IntLit(-1)), Bin(SBool, "<=", c[0], T(SInt, "4611686018427387904"))))
		}
	}
	e.curLoopState = st
	e.setIdx(fr, h)
	// 3. assume invariants
	if lc != nil {
		for _, inv := range lc.Invariants {
			env := e.loopEnv(fr, st, pre)
			c, err := env.evalBool(inv.E)
			if err == nil {
				e.assume(reach, c)
			}
		}
		if lc.Decreases != nil {
			env := e.loopEnv(fr, st, pre)
			d, err := env.evalTerm(lc.Decreases.E)
			if err == nil {
				dc := e.fresh("dec."+name, SInt)
				e.assume(reach, Eq(dc, d))
				e.ghost["dec."+name+fmt.Sprint(fr.id)] = dc
			} else {
				e.contractError(lc.Decreases, err)
			}
		}
	}
	e.ghost["loopentry."+name+fmt.Sprint(fr.id)] = Term{} // marker
	if e.loopPre == nil {
		e.loopPre = map[string]*State{}
	}
	e.loopPre[name+fmt.Sprint(fr.id)] = pre
	e.autoInvs[name+fmt.Sprint(fr.id)] = nil
	for _, a := range autos {
		e.autoInvs[name+fmt.Sprint(fr.id)] = append(e.autoInvs[name+fmt.Sprint(fr.id)], autoChk{a.phi, a.lo})
	}
	return reach
}

// setIdx binds "$idx" to the hidden index of a range loop (the integer phi of the header).
// isRangeLoop: the loop header belongs to a range over a slice/array/int (index cell) or over a map/string (Next).
func isRangeLoop(h *ssa.BasicBlock) bool {
	if rangeIndexAlloc(h) != nil {
		return true
	}
	for _, in := range h.Instrs {
		if _, ok := in.(*ssa.Next); ok {
			return true
		}
	}
	// the index cell may also be loaded/compared in the header without being stored there
	for _, in := range h.Instrs {
		if u, ok := in.(*ssa.UnOp); ok {
			if a, ok := u.X.(*ssa.Alloc); ok && a.Comment == "rangeindex" {
				return true
			}
		}
	}
	return false
}

func rangeIndexAlloc(h *ssa.BasicBlock) *ssa.Alloc {
	for _, in := range h.Instrs {
		if st, ok := in.(*ssa.Store); ok {
			if a, ok := st.Addr.(*ssa.Alloc); ok && a.Comment == "rangeindex" {
				return a
			}
		}
	}
	return nil
}

func (e *Engine) setIdx(fr *Frame, h *ssa.BasicBlock) {
	delete(e.ghost, "$idx")
	if a := rangeIndexAlloc(h); a != nil && e.curLoopState != nil {
		if c, ok := e.curLoopState.cells[a]; ok && len(c) == 1 {
			e.ghost["$idx"] = c[0]
			return
		}
	}
	for _, in := range h.Instrs {
		phi, ok := in.(*ssa.Phi)
		if !ok {
			break
		}
		if b, ok := phi.Type().Underlying().(*types.Basic); ok && b.Info()&types.IsInteger != 0 {
			if v, ok := fr.vals[phi]; ok && len(v.L) == 1 {
				e.ghost["$idx"] = v.L[0]
				return
			}
		}
	}
}

type autoChk struct {
	phi *ssa.Phi
	lo  Term
}

func (e *Engine) cutLoopBack(fr *Frame, h *ssa.BasicBlock, ord int, lc *LoopContract, st *State, reach Term, from *ssa.BasicBlock) {
	name := fmt.Sprintf("loop%d", ord)
	if !fr.top {
		name = fr.fn.Name() + "." + name
	}
	key := name + fmt.Sprint(fr.id)
	pre := e.loopPre[key]
	// phis take their back-edge values
	saved := map[*ssa.Phi]Val{}
	for _, in := range h.Instrs {
		phi, ok := in.(*ssa.Phi)
		if !ok {
			break
		}
		for pi, p := range h.Preds {
			if p == from {
				saved[phi] = fr.vals[phi]
				nv := e.valueOf(fr, st, phi.Edges[pi])
				defer func(phi *ssa.Phi, old Val) { fr.vals[phi] = old }(phi, fr.vals[phi])
				_ = nv
			}
		}
	}
	newPhi := map[*ssa.Phi]Val{}
	for _, in := range h.Instrs {
		phi, ok := in.(*ssa.Phi)
		if !ok {
			break
		}
		for pi, p := range h.Preds {
			if p == from {
				newPhi[phi] = e.valueOf(fr, st, phi.Edges[pi])
			}
		}
	}
	for _, a := range e.autoInvs[key] {
		if nv, ok := newPhi[a.phi]; ok {
			e.oblige("inv.keep", fmt.Sprintf("inv.keep.auto@%s", name), "range index stays above its start", reach, Bin(SBool, ">=", nv.scalar(), a.lo), nil)
		}
	}
	for phi, nv := range newPhi {
		fr.vals[phi] = nv
	}
	if ra := rangeIndexAlloc(h); ra != nil {
		if c, ok := st.cells[ra]; ok {
			e.oblige("inv.keep", fmt.Sprintf("inv.keep.auto@%s", name), "range index stays within [-1, 2^62]", reach, And(Bin(SBool, ">=", c[0], IntLit(-1)), Bin(SBool, "<=", c[0], T(SInt, "4611686018427387904"))), nil)
		}
	}
	e.curLoopState = st
	e.setIdx(fr, h)
	if fr.top && e.FC != nil {
		for i, t := range e.freshFrameFacts(st) {
			e.oblige("inv.keep", fmt.Sprintf("inv.keep.fresh%d@%s", i+1, name), "objects existing at entry are unchanged in a component declared fresh:", reach, t, nil)
		}
	}
	if lc != nil {
		e.checkBodyEnsures(fr, lc, st, pre, reach, name, "back")
		for i, inv := range lc.Invariants {
			env := e.loopEnv(fr, st, pre)
			c, err := env.evalBool(inv.E)
			if err != nil {
				continue
			}
			lbl := inv.Label
			if lbl == "" {
				lbl = fmt.Sprint(i + 1)
			}
			o := e.oblige("inv.keep", fmt.Sprintf("inv.keep.%s@%s", lbl, name), inv.Text, reach, c, inv)
			if o != nil {
				o.Props = inv.Props
			}
		}
		if lc.Decreases != nil {
			if d0, ok := e.ghost["dec."+key]; ok {
				env := e.loopEnv(fr, st, pre)
				d, err := env.evalTerm(lc.Decreases.E)
				if err == nil {
					e.oblige("dec", fmt.Sprintf("dec@%s", name), lc.Decreases.Text, reach,
						And(Bin(SBool, "<", d, d0), Bin(SBool, ">=", d0, IntLit(0))), lc.Decreases)
				}
			}
		}
	}
	for phi, old := range saved {
		fr.vals[phi] = old
	}
}

// freshFrameFacts: for every component matching a "fresh:" entry of the contract that the state has touched,
// "objects <= alloc0 have their entry contents".
func (e *Engine) freshFrameFacts(st *State) []Term {
	var out []Term
	if e.FC != nil && e.FC.TrustFrame {
		return nil
	}
	fcs := freshComps(e.FC)
	if len(fcs) == 0 {
		return nil
	}
	var names []string
	for n := range st.heap {
		names = append(names, n)
	}
	sort.Strings(names)
	for _, name := range names {
		cur := st.heap[name]
		for _, fo := range fcs {
			if strings.HasPrefix(name, fo) && strings.HasPrefix(string(cur.Sort), "(Array") {
				ini := e.old.comp(name, cur.Sort)
				if ini.S != cur.S {
					out = append(out, T(SBool, "(forall ((fr Int)) (! (=> (<= fr alloc0) (= (select %s fr) (select %s fr))) :pattern ((select %s fr))))", cur, ini, cur))
				}
			}
		}
	}
	return out
}

func (e *Engine) checkBodyEnsures(fr *Frame, lc *LoopContract, st, pre *State, reach Term, name, where string) {
	clauses := lc.BodyEnsures
	if where == "back" {
		clauses = append(append([]*Clause{}, lc.BodyEnsures...), lc.IterEnsures...)
	}
	for i, be := range clauses {
		env := e.loopEnv(fr, st, pre)
		c, err := env.evalBool(be.E)
		if err != nil {
			e.contractError(be, err)
			continue
		}
		lbl := be.Label
		if lbl == "" {
			lbl = fmt.Sprint(i + 1)
		}
		e.bodyOrd[name+where+lbl]++
		o := e.oblige("body", fmt.Sprintf("body.%s@%s.%s%d", lbl, name, where, e.bodyOrd[name+where+lbl]), be.Text, reach, c, be)
		if o != nil {
			o.Props = be.Props
		}
	}
}

func (e *Engine) contractError(c *Clause, err error) {
	msg := fmt.Sprintf("%s: %s: %v", c.Src, truncate(c.Text, 80), err)
	for _, m := range e.cerrors {
		if m == msg {
			return
		}
	}
	e.cerrors = append(e.cerrors, msg)
}

// ---------------------------------------------------------------- values

func (e *Engine) constVal(c *ssa.Const) Val {
	t := c.Type()
	if c.Value == nil {
		return zeroVal(t)
	}
	switch c.Value.Kind() {
	case constant.Bool:
		return Val{T: t, L: []Term{BoolLit(constant.BoolVal(c.Value))}}
	case constant.String:
		return Val{T: t, L: []Term{e.strLit(constant.StringVal(c.Value))}}
	case constant.Int:
		bi, ok := new(big.Int).SetString(c.Value.ExactString(), 10)
		if !ok {
			bi = big.NewInt(0)
		}
		if len(Layout(t)) == 1 {
			return Val{T: t, L: []Term{BigLit(bi)}}
		}
	case constant.Float:
		if len(Layout(t)) == 1 {
			f, _ := constant.Float64Val(c.Value)
			return Val{T: t, L: []Term{IntLit(int64(f))}}
		}
	}
	return zeroVal(t)
}

func (e *Engine) valueOf(fr *Frame, st *State, v ssa.Value) Val {
	switch x := v.(type) {
	case *ssa.Const:
		return e.constVal(x)
	case *ssa.Global:
		t := x.Type().(*types.Pointer).Elem()
		return Val{T: x.Type(), Addr: &Addr{Kind: aGlobal, Global: x, Root: t, T: t}}
	case *ssa.Function:
		return Val{T: x.Type(), Clo: &Closure{Fn: x}}
	case *ssa.Parameter:
		for i, p := range fr.fn.Params {
			if p == x {
				return fr.params[i]
			}
		}
	case *ssa.FreeVar:
		for i, p := range fr.fn.FreeVars {
			if p == x {
				return fr.freevars[i]
			}
		}
	case *ssa.Builtin:
		return Val{T: x.Type()}
	}
	if val, ok := fr.vals[v]; ok {
		return val
	}
	panic(fmt.Sprintf("%s: value %s (%T) not defined in frame of %s", e.FuncID, v.Name(), v, fr.fn.Name()))
}

// ---------------------------------------------------------------- instructions

func (e *Engine) execInstr(fr *Frame, st *State, reach Term, in ssa.Instruction) Term {
	switch x := in.(type) {
	case *ssa.Alloc:
		t := x.Type().(*types.Pointer).Elem()
		if at, isArr := t.Underlying().(*types.Array); isArr {
			// arrays live in the slice-element heap so that slicing them shares storage
			et := at.Elem()
			_, r := e.newSite(types.NewSlice(et))
				for _, lf := range Layout(et) {
				name := "E." + typeID(et) + "." + lf.Path
				arr := st.comp(name, ArraySort(SInt, ArraySort(SInt, lf.Sort)))
				st.setComp(name, e.define("h", Store(arr, r, constArr(lf))))
			}
			fr.vals[x] = Val{T: x.Type(), L: []Term{r}}
			break
		}
		if x.Heap {
			site, r := e.newSite(t)
			a := &Addr{Kind: aHeap, Ref: r, Root: t, T: t, Site: site}
			e.store(st, a, zeroVal(t))
			fr.vals[x] = Val{T: x.Type(), Addr: a}
		} else {
			st.cells[x] = zeroVal(t).L
			fr.vals[x] = Val{T: x.Type(), Addr: &Addr{Kind: aCell, Cell: x, Root: t, T: t}}
		}
	case *ssa.Store:
		pv := e.valueOf(fr, st, x.Addr)
		a := e.ptrAddr(pv)
		e.nilCheck(reach, a, "store")
		v := e.valueOf(fr, st, x.Val)
		e.store(st, a, e.storable(st, reach, v, a.T))
		e.lockCheck(st, reach, a, true)
	case *ssa.UnOp:
		fr.vals[x] = e.unop(fr, st, reach, x)
	case *ssa.BinOp:
		fr.vals[x] = e.binop(fr, st, reach, x)
	case *ssa.FieldAddr:
		pv := e.valueOf(fr, st, x.X)
		a := e.ptrAddr(pv)
		e.nilCheck(reach, a, "field")
		st0 := a.T
		off, _ := fieldRange(st0, x.Field)
		ft := st0.Underlying().(*types.Struct).Field(x.Field).Type()
		na := *a
		na.Off = a.Off + off
		na.T = ft
		fr.vals[x] = Val{T: x.Type(), Addr: &na}
	case *ssa.Field:
		sv := e.valueOf(fr, st, x.X)
		off, n := fieldRange(sv.T, x.Field)
		ft := sv.T.Underlying().(*types.Struct).Field(x.Field).Type()
		fr.vals[x] = Val{T: ft, L: sv.L[off : off+n]}
	case *ssa.IndexAddr:
		base := e.valueOf(fr, st, x.X)
		idx := e.valueOf(fr, st, x.Index).scalar()
		switch bt := base.T.Underlying().(type) {
		case *types.Slice:
			arr, off, ln := base.L[0], base.L[1], base.L[2]
			e.safety("index", "slice", reach, And(Bin(SBool, "<=", IntLit(0), idx), Bin(SBool, "<", idx, ln)))
			fr.vals[x] = Val{T: x.Type(), Addr: &Addr{Kind: aElem, Ref: arr, Idx: e.define("ix", Bin(SInt, "+", off, idx)), Root: bt.Elem(), T: bt.Elem()}}
		case *types.Pointer:
			if at, ok := bt.Elem().Underlying().(*types.Array); ok && base.Addr == nil {
				e.safety("index", "array", reach, And(Bin(SBool, "<=", IntLit(0), idx), Bin(SBool, "<", idx, IntLit(at.Len()))))
				fr.vals[x] = Val{T: x.Type(), Addr: &Addr{Kind: aElem, Ref: base.L[0], Idx: idx, Root: at.Elem(), T: at.Elem()}}
				break
			}
			e.note("unsupported IndexAddr on %s", typeID(base.T))
			fr.vals[x] = e.havocPtr(reach, x.Type())
		default:
			e.note("unsupported IndexAddr on %s", typeID(base.T))
			fr.vals[x] = e.havocPtr(reach, x.Type())
		}
	case *ssa.Index:
		base := e.valueOf(fr, st, x.X)
		idx := e.valueOf(fr, st, x.Index).scalar()
		if b, ok := base.T.Underlying().(*types.Basic); ok && b.Info()&types.IsString != 0 {
			e.safety("index", "string", reach, And(Bin(SBool, "<=", IntLit(0), idx), Bin(SBool, "<", idx, T(SInt, "(strlen %s)", base.L[0]))))
			r := e.define("ch", T(SInt, "(strat %s %s)", base.L[0], idx))
			e.assume(reach, And(Bin(SBool, "<=", IntLit(0), r), Bin(SBool, "<=", r, IntLit(255))))
			fr.vals[x] = Val{T: x.Type(), L: []Term{r}}
		} else {
			e.note("unsupported Index on %s", typeID(base.T))
			fr.vals[x] = e.havocVal(reach, "idx", x.Type())
		}
	case *ssa.Lookup:
		fr.vals[x] = e.lookup(fr, st, reach, x)
	case *ssa.MapUpdate:
		e.mapUpdate(fr, st, reach, x)
	case *ssa.MakeMap:
		_, r := e.newSite(x.Type().Underlying())
		mt := x.Type().Underlying().(*types.Map)
		ks := Layout(mt.Key())[0].Sort
		id := "M." + typeID(mt) + "."
		has := st.comp(id+"has", ArraySort(SInt, ArraySort(ks, SBool)))
		st.setComp(id+"has", e.define("h", Store(has, r, T(ArraySort(ks, SBool), "((as const (Array %s Bool)) false)", ks))))
		card := st.comp(id+"card", ArraySort(SInt, SInt))
		st.setComp(id+"card", e.define("h", Store(card, r, IntLit(0))))
		fr.vals[x] = Val{T: x.Type(), L: []Term{r}}
	case *ssa.MakeSlice:
		ln := e.valueOf(fr, st, x.Len).scalar()
		cp := e.valueOf(fr, st, x.Cap).scalar()
		e.safety("makelen", "make", reach, And(Bin(SBool, "<=", IntLit(0), ln), Bin(SBool, "<=", ln, cp)))
		e.allocCheck(reach, ln, "make")
		et := x.Type().Underlying().(*types.Slice).Elem()
		_, r := e.newSite(types.NewSlice(et))
		// zero-filled
		for _, lf := range Layout(et) {
			name := "E." + typeID(et) + "." + lf.Path
			arr := st.comp(name, ArraySort(SInt, ArraySort(SInt, lf.Sort)))
			st.setComp(name, e.define("h", Store(arr, r, constArr(lf))))
		}
		fr.vals[x] = Val{T: x.Type(), L: []Term{r, IntLit(0), ln, cp}}
	case *ssa.MakeChan:
		_, r := e.newSite(x.Type())
		fr.vals[x] = Val{T: x.Type(), L: []Term{r}}
	case *ssa.MakeClosure:
		var bs []Val
		for _, b := range x.Bindings {
			bs = append(bs, e.valueOf(fr, st, b))
		}
		fr.vals[x] = Val{T: x.Type(), Clo: &Closure{Fn: x.Fn.(*ssa.Function), Bindings: bs}}
	case *ssa.MakeInterface:
		fr.vals[x] = e.makeInterface(st, reach, e.valueOf(fr, st, x.X), x.Type())
	case *ssa.ChangeInterface:
		v := e.valueOf(fr, st, x.X)
		fr.vals[x] = Val{T: x.Type(), L: v.L, Dyn: v.Dyn}
	case *ssa.ChangeType:
		v := e.valueOf(fr, st, x.X)
		v.T = x.Type()
		fr.vals[x] = v
	case *ssa.Convert:
		fr.vals[x] = e.convert(fr, st, reach, x)
	case *ssa.TypeAssert:
		fr.vals[x] = e.typeAssert(fr, st, reach, x)
	case *ssa.Extract:
		tv := e.valueOf(fr, st, x.Tuple)
		tt := tv.T.(*types.Tuple)
		off, n := tupleRange(tt, x.Index)
		out := Val{T: tt.At(x.Index).Type(), L: tv.L[off : off+n]}
		if e.tupleClo != nil {
			if c, ok := e.tupleClo[x.Tuple]; ok && c[x.Index] != nil {
				out.Clo = c[x.Index]
			}
		}
		fr.vals[x] = out
	case *ssa.Slice:
		fr.vals[x] = e.sliceOp(fr, st, reach, x)
	case *ssa.Range:
		v := e.valueOf(fr, st, x.X)
		fr.vals[x] = Val{T: x.Type(), L: e.flat(st, reach, v)}
		e.rangeOf[x] = v
		if mt, ok := v.T.Underlying().(*types.Map); ok {
			_, ks := mapComps(mt)
			st.setComp("V.visited."+x.Name(), T(ArraySort(ks, SBool), "((as const (Array %s Bool)) false)", ks))
		}
	case *ssa.Next:
		fr.vals[x] = e.next(fr, st, reach, x)
	case *ssa.Call:
		var res Val
		res, reach = e.call(fr, st, reach, x, x.Common(), nil)
		fr.vals[x] = res
	case *ssa.Defer:
		e.deferOrd++
		d := &deferEntry{guard: reach, instr: x, fr: fr, order: e.deferOrd}
		c := x.Common()
		if c.IsInvoke() {
			rv := e.valueOf(fr, st, c.Value)
			d.recv = &rv
		} else {
			d.fn = e.valueOf(fr, st, c.Value)
		}
		for _, a := range c.Args {
			d.args = append(d.args, e.valueOf(fr, st, a))
		}
		if len(reach.S) > 30 {
			g := e.fresh("defer", SBool)
			e.assumes = append(e.assumes, Eq(g, reach))
			d.guard = g
		}
		st.defers = append(st.defers, d)
	case *ssa.RunDefers:
		reach = e.runDefers(fr, st, reach)
	case *ssa.Go:
		e.goStmt(fr, st, reach, x)
	case *ssa.Send:
		e.note("channel send not modelled")
	case *ssa.Select:
		e.note("select not modelled (nondeterministic choice among its cases)")
		sv := e.havocVal(reach, "select", x.Type())
		if len(sv.L) > 0 && sv.L[0].Sort == SInt {
			lo := IntLit(0)
			if !x.Blocking {
				lo = IntLit(-1)
			}
			e.assume(reach, And(Bin(SBool, "<=", lo, sv.L[0]), Bin(SBool, "<", sv.L[0], IntLit(int64(len(x.States))))))
		}
		fr.vals[x] = sv
	case *ssa.DebugRef:
	case *ssa.SliceToArrayPointer, *ssa.MultiConvert:
		e.note("unsupported instruction %T", in)
		if v, ok := in.(ssa.Value); ok {
			fr.vals[v] = e.havocVal(reach, "unsup", v.Type())
		}
	default:
		e.note("unsupported instruction %T", in)
		if v, ok := in.(ssa.Value); ok {
			fr.vals[v] = e.havocVal(reach, "unsup", v.Type())
		}
		st.havocPrefix([]string{""}, false)
	}
	return reach
}

var siteTermRe = regexp.MustCompile(`^\(\+ alloc0 \d+\)$`)

// constArr: the all-zero array for element leaf lf (cvc5 accepts "as const" only with value arguments).
func constArr(lf Leaf) Term {
	if lf.Sort == SStr {
		return Term{"zarr.Str", ArraySort(SInt, SStr)}
	}
	return T(ArraySort(SInt, lf.Sort), "((as const (Array Int %s)) %s)", lf.Sort, zeroTerm(lf))
}

func arrayElemOfPtr(t types.Type) types.Type {
	if pt, ok := t.Underlying().(*types.Pointer); ok {
		if at, ok := pt.Elem().Underlying().(*types.Array); ok {
			return at.Elem()
		}
	}
	return nil
}

func (e *Engine) havocPtr(reach Term, t types.Type) Val {
	return e.havocVal(reach, "p", t)
}

// storable converts a value for storing at an address of type t (reifies pointers / closures).
func (e *Engine) storable(st *State, reach Term, v Val, t types.Type) Val {
	if v.Addr != nil || (v.Clo != nil && len(v.L) == 0) {
		return Val{T: v.T, L: e.flat(st, reach, v), Clo: v.Clo}
	}
	return v
}

func (e *Engine) nilCheck(reach Term, a *Addr, what string) {
	if a.Kind == aHeap && a.Site == 0 {
		if strings.HasPrefix(a.Ref.S, "(+ alloc0 ") {
			return
		}
		e.safety("nil", what, reach, Not(Eq(a.Ref, IntLit(0))))
	}
}

// allocCheck: allocation sizes must be bounded by a constant or by data already obtained (C07/C17).
func (e *Engine) allocCheck(reach Term, n Term, what string) {
	if !e.P.allocChecks[e.FuncID] && !e.allocAll {
		return
	}
	bound := e.P.allocBound(e.FuncID)
	cond := Bin(SBool, "<=", n, IntLit(bound))
	if e.allocExtra.S != "" {
		// allocation backed by data the function was handed (contract: allocbound <expr>)
		cond = Or(cond, Bin(SBool, "<=", n, e.allocExtra))
	}
	e.safety("alloc", what, reach, cond)
}

func (e *Engine) unop(fr *Frame, st *State, reach Term, x *ssa.UnOp) Val {
	v := e.valueOf(fr, st, x.X)
	switch x.Op {
	case token.MUL:
		a := e.ptrAddr(v)
		e.nilCheck(reach, a, "load")
		e.lockCheck(st, reach, a, false)
		out := e.load(st, a)
		e.noteOwned(st, a, out)
		e.noteGlobalVal(a, out)
		// references loaded from outside are not our unescaped local objects
		if a.Kind != aCell {
			for i, l := range Layout(out.T) {
				if l.Kind == kRef || l.Kind == kSlArr || l.Kind == kIfRef {
					e.outsideRef(reach, out.L[i])
				}
			}
			e.assumeWFLoaded(reach, out)
		}
		return out
	case token.NOT:
		return Val{T: x.Type(), L: []Term{Not(v.scalar())}}
	case token.SUB:
		return Val{T: x.Type(), L: []Term{wrapInt(x.Type(), T(SInt, "(- %s)", v.scalar()))}}
	case token.XOR:
		// ^x = -x-1 (two's complement) wrapped
		return Val{T: x.Type(), L: []Term{wrapInt(x.Type(), T(SInt, "(- (- %s) 1)", v.scalar()))}}
	case token.ARROW:
		e.note("channel receive not modelled")
		return e.havocVal(reach, "recv", x.Type())
	}
	e.note("unsupported unary op %s", x.Op)
	return e.havocVal(reach, "unop", x.Type())
}

// assumeWFLoaded: values read from memory are well-formed for their type.
func (e *Engine) assumeWFLoaded(reach Term, v Val) {
	ls := Layout(v.T)
	if len(ls) > 12 {
		return // large structs: facts are added when the fields are used
	}
	e.assumeWF(reach, v)
}

func constOf(v ssa.Value) (*big.Int, bool) {
	c, ok := v.(*ssa.Const)
	if !ok || c.Value == nil || c.Value.Kind() != constant.Int {
		return nil, false
	}
	bi, ok := new(big.Int).SetString(c.Value.ExactString(), 10)
	return bi, ok
}

func pow2(k uint) *big.Int { return new(big.Int).Lsh(big.NewInt(1), k) }

// maskAnd computes x & c for constant c on a value of the given integer type.
func maskAnd(t types.Type, x Term, c *big.Int) Term {
	bits, signed := intBits(t)
	ux := x
	if signed {
		ux = T(SInt, "(mod %s %s)", x.S, pow2(uint(bits)))
	}
	cc := new(big.Int).Set(c)
	if cc.Sign() < 0 {
		cc.Add(cc, pow2(uint(bits)))
	}
	var parts []string
	i := 0
	for i < bits {
		if cc.Bit(i) == 0 {
			i++
			continue
		}
		j := i
		for j < bits && cc.Bit(j) == 1 {
			j++
		}
		// run [i,j)
		p := fmt.Sprintf("(* %s (mod (div %s %s) %s))", pow2(uint(i)), ux.S, pow2(uint(i)), pow2(uint(j-i)))
		parts = append(parts, p)
		i = j
	}
	var r Term
	switch len(parts) {
	case 0:
		r = IntLit(0)
	case 1:
		r = Term{parts[0], SInt}
	default:
		r = Term{"(+ " + strings.Join(parts, " ") + ")", SInt}
	}
	if signed {
		return wrapInt(t, r)
	}
	return r
}

func pow2Term(k Term, bits int) Term {
	// ite chain 2^k for 0 <= k < bits, else 0 (shifted out)
	r := "0"
	for i := bits - 1; i >= 0; i-- {
		r = fmt.Sprintf("(ite (= %s %d) %s %s)", k.S, i, pow2(uint(i)), r)
	}
	return Term{r, SInt}
}

func (e *Engine) binop(fr *Frame, st *State, reach Term, x *ssa.BinOp) Val {
	a := e.valueOf(fr, st, x.X)
	b := e.valueOf(fr, st, x.Y)
	t := x.X.Type()
	rt := x.Type()
	mk := func(t Term) Val { return Val{T: rt, L: []Term{t}} }
	switch x.Op {
	case token.EQL, token.NEQ:
		eq := e.valsEqual(st, reach, a, b)
		if x.Op == token.NEQ {
			eq = Not(eq)
		}
		return mk(eq)
	}
	ut := t.Underlying()
	if bt, ok := ut.(*types.Basic); ok && bt.Info()&types.IsString != 0 {
		switch x.Op {
		case token.ADD:
			r := e.define("cat", T(SStr, "(str_concat %s %s)", a.scalar(), b.scalar()))
			e.strTerm(r)
			e.assumes = append(e.assumes, T(SBool, "(= (strlen %s) (+ (strlen %s) (strlen %s)))", r, a.scalar(), b.scalar()))
			return mk(r)
		case token.LSS:
			return mk(T(SBool, "(str_lt %s %s)", a.scalar(), b.scalar()))
		case token.GTR:
			return mk(T(SBool, "(str_lt %s %s)", b.scalar(), a.scalar()))
		case token.LEQ:
			return mk(Not(T(SBool, "(str_lt %s %s)", b.scalar(), a.scalar())))
		case token.GEQ:
			return mk(Not(T(SBool, "(str_lt %s %s)", a.scalar(), b.scalar())))
		}
	}
	if bt, ok := ut.(*types.Basic); ok && bt.Info()&types.IsBoolean != 0 {
		switch x.Op {
		case token.AND, token.LAND:
			return mk(And(a.scalar(), b.scalar()))
		case token.OR, token.LOR:
			return mk(Or(a.scalar(), b.scalar()))
		}
	}
	if len(a.L) != 1 || len(b.L) != 1 {
		e.note("unsupported binop %s on %s", x.Op, typeID(t))
		return e.havocVal(reach, "binop", rt)
	}
	p, q := a.L[0], b.L[0]
	switch x.Op {
	case token.ADD:
		return mk(e.define("add", wrapInt(rt, Bin(SInt, "+", p, q))))
	case token.SUB:
		return mk(e.define("sub", wrapInt(rt, Bin(SInt, "-", p, q))))
	case token.MUL:
		return mk(e.define("mul", wrapInt(rt, Bin(SInt, "*", p, q))))
	case token.QUO:
		e.safety("divzero", "quo", reach, Not(Eq(q, IntLit(0))))
		return mk(e.define("quo", wrapInt(rt, T(SInt, "(tdiv %s %s)", p, q))))
	case token.REM:
		e.safety("divzero", "rem", reach, Not(Eq(q, IntLit(0))))
		return mk(e.define("rem", T(SInt, "(tmod %s %s)", p, q)))
	case token.LSS:
		return mk(Bin(SBool, "<", p, q))
	case token.LEQ:
		return mk(Bin(SBool, "<=", p, q))
	case token.GTR:
		return mk(Bin(SBool, ">", p, q))
	case token.GEQ:
		return mk(Bin(SBool, ">=", p, q))
	case token.AND:
		if c, ok := constOf(x.Y); ok {
			return mk(e.define("and", maskAnd(rt, p, c)))
		}
		if c, ok := constOf(x.X); ok {
			return mk(e.define("and", maskAnd(rt, q, c)))
		}
		r := e.define("and", T(SInt, "(band %s %s)", p, q))
		e.assume(reach, inRange(rt, r))
		if _, signed := intBits(rt); !signed {
			e.assume(reach, And(Bin(SBool, "<=", r, p), Bin(SBool, "<=", r, q)))
		}
		return mk(r)
	case token.OR, token.XOR:
		fn := "bor"
		if x.Op == token.XOR {
			fn = "bxor"
		}
		r := e.define(fn, T(SInt, "(%s %s %s)", fn, p, q))
		e.assume(reach, inRange(rt, r))
		return mk(r)
	case token.SHL:
		bits, _ := intBits(rt)
		if c, ok := constOf(x.Y); ok && c.IsInt64() && c.Int64() < 64 {
			return mk(e.define("shl", wrapInt(rt, T(SInt, "(* %s %s)", p, pow2(uint(c.Int64()))))))
		}
		e.safety("shift", "shl", reach, Bin(SBool, ">=", q, IntLit(0)))
		return mk(e.define("shl", wrapInt(rt, T(SInt, "(* %s %s)", p, pow2Term(q, bits)))))
	case token.SHR:
		if c, ok := constOf(x.Y); ok && c.IsInt64() && c.Int64() < 64 {
			return mk(e.define("shr", T(SInt, "(div %s %s)", p, pow2(uint(c.Int64())))))
		}
		e.safety("shift", "shr", reach, Bin(SBool, ">=", q, IntLit(0)))
		r := e.define("shr", T(SInt, "(bshr %s %s)", p, q))
		e.assume(reach, inRange(rt, r))
		return mk(r)
	case token.AND_NOT:
		r := e.define("andnot", T(SInt, "(band %s (- (- %s) 1))", p, q))
		e.assume(reach, inRange(rt, r))
		return mk(r)
	}
	e.note("unsupported binop %s", x.Op)
	return e.havocVal(reach, "binop", rt)
}

// valsEqual compares two values of the same type (==).
func (e *Engine) valsEqual(st *State, reach Term, a, b Val) Term {
	la := e.flat(st, reach, a)
	lb := e.flat(st, reach, b)
	t := a.T
	if isNilType(t) {
		t = b.T
	}
	if len(la) != len(lb) {
		// comparison against untyped nil
		if isNilType(a.T) {
			la = zeroVal(b.T).L
		} else if isNilType(b.T) {
			lb = zeroVal(a.T).L
		} else {
			e.note("comparison of values with different layouts %s / %s", typeID(a.T), typeID(b.T))
			return e.fresh("cmp", SBool)
		}
	}
	switch t.Underlying().(type) {
	case *types.Slice:
		// Go only allows comparison with nil; contracts compare slice headers structurally
		if isNilType(a.T) || isNilType(b.T) {
			return Eq(la[0], lb[0])
		}
	}
	var cs []Term
	for i := range la {
		cs = append(cs, Eq(la[i], lb[i]))
	}
	return And(cs...)
}

func isNilType(t types.Type) bool {
	b, ok := t.(*types.Basic)
	return ok && b.Kind() == types.UntypedNil
}

func (e *Engine) makeInterface(st *State, reach Term, v Val, it types.Type) Val {
	tag := e.P.typeTag(v.T)
	var ref Term
	if _, isPtr := v.T.Underlying().(*types.Pointer); isPtr {
		ref = e.flat(st, reach, v)[0]
	} else if len(Layout(v.T)) == 1 && Layout(v.T)[0].Sort == SInt {
		// scalar payload stored directly
		ref = e.flat(st, reach, v)[0]
	} else {
		// box the value
		_, r := e.newSite(v.T)
		e.store(st, &Addr{Kind: aHeap, Ref: r, Root: v.T, T: v.T}, e.storable(st, reach, v, v.T))
		ref = r
	}
	out := Val{T: it, L: []Term{IntLit(int64(tag)), ref}, Dyn: v.T}
	if v.Clo != nil {
		out.Clo = v.Clo
	}
	return out
}

func (e *Engine) typeAssert(fr *Frame, st *State, reach Term, x *ssa.TypeAssert) Val {
	v := e.valueOf(fr, st, x.X)
	tag, ref := v.L[0], v.L[1]
	at := x.AssertedType
	var ok Term
	var payload Val
	if _, isIface := at.Underlying().(*types.Interface); isIface {
		// interface-to-interface assertion: succeeds iff dynamic type implements; unknown statically
		okc := e.fresh("implements", SBool)
		e.assume(reach, Implies(okc, Not(Eq(tag, IntLit(0)))))
		ok = okc
		if si, isI := x.X.Type().Underlying().(*types.Interface); isI {
			if ti, isT := at.Underlying().(*types.Interface); isT && types.Implements(x.X.Type(), ti) && si != nil {
				ok = Not(Eq(tag, IntLit(0)))
			}
		}
		payload = Val{T: at, L: []Term{tag, ref}}
	} else {
		tg := e.P.typeTag(at)
		ok = Eq(tag, IntLit(int64(tg)))
		if pt, isPtr := at.Underlying().(*types.Pointer); isPtr {
			e.assume(reach, Implies(ok, Or(Eq(ref, IntLit(0)), Eq(T(SInt, "(rtype %s)", ref), IntLit(int64(e.P.typeTag(pt.Elem())))))))
		}
		if _, isPtr := at.Underlying().(*types.Pointer); isPtr || (len(Layout(at)) == 1 && Layout(at)[0].Sort == SInt) {
			payload = Val{T: at, L: []Term{ref}}
		} else {
			payload = e.load(st, &Addr{Kind: aHeap, Ref: ref, Root: at, T: at})
		}
	}
	if x.CommaOk {
		z := zeroVal(at)
		out := Val{T: x.Type()}
		for i := range payload.L {
			out.L = append(out.L, Ite(ok, payload.L[i], z.L[i]))
		}
		out.L = append(out.L, ok)
		return out
	}
	e.safety("typeassert", typeID(at), reach, ok)
	return payload
}

func (e *Engine) convert(fr *Frame, st *State, reach Term, x *ssa.Convert) Val {
	v := e.valueOf(fr, st, x.X)
	from, to := x.X.Type().Underlying(), x.Type().Underlying()
	fb, fok := from.(*types.Basic)
	tb, tok := to.(*types.Basic)
	switch {
	case fok && tok && fb.Info()&types.IsInteger != 0 && tb.Info()&types.IsInteger != 0:
		return Val{T: x.Type(), L: []Term{e.define("conv", wrapInt(x.Type(), v.scalar()))}}
	case fok && tok && fb.Info()&types.IsString != 0 && tb.Info()&types.IsString != 0:
		return Val{T: x.Type(), L: v.L}
	case tok && tb.Info()&types.IsString != 0:
		if sl, ok := from.(*types.Slice); ok {
			// string(bytes)
			name := "E." + typeID(sl.Elem()) + "."
			arr := st.comp(name, ArraySort(SInt, ArraySort(SInt, SInt)))
			s := e.define("str", T(SStr, "(bytes2str %s %s %s)", Select(arr, v.L[0], ArraySort(SInt, SInt)), v.L[1], v.L[2]))
			e.assume(reach, Eq(T(SInt, "(strlen %s)", s), v.L[2]))
			return Val{T: x.Type(), L: []Term{s}}
		}
	case fok && fb.Info()&types.IsString != 0:
		if sl, ok := to.(*types.Slice); ok {
			// []byte(s): fresh array with len = strlen, contents = chars
			_, r := e.newSite(types.NewSlice(sl.Elem()))
				ln := T(SInt, "(strlen %s)", v.scalar())
			name := "E." + typeID(sl.Elem()) + "."
			arr := st.comp(name, ArraySort(SInt, ArraySort(SInt, SInt)))
			cont := e.fresh("strbytes", ArraySort(SInt, SInt))
			st.setComp(name, e.define("h", Store(arr, r, cont)))
			e.assumes = append(e.assumes, T(SBool, "(forall ((i Int)) (! (=> (and (<= 0 i) (< i %s)) (= (select %s i) (strat %s i))) :pattern ((select %s i))))", ln, cont, v.scalar(), cont))
			e.assumes = append(e.assumes, T(SBool, "(= (bytes2str %s 0 %s) %s)", cont, ln, v.scalar()))
			return Val{T: x.Type(), L: []Term{r, IntLit(0), ln, ln}}
		}
	}
	if len(Layout(x.Type())) == len(v.L) {
		v.T = x.Type()
		return v
	}
	e.note("unsupported conversion %s -> %s", typeID(x.X.Type()), typeID(x.Type()))
	return e.havocVal(reach, "conv", x.Type())
}

func (e *Engine) sliceOp(fr *Frame, st *State, reach Term, x *ssa.Slice) Val {
	base := e.valueOf(fr, st, x.X)
	get := func(v ssa.Value, def Term) Term {
		if v == nil {
			return def
		}
		return e.valueOf(fr, st, v).scalar()
	}
	switch bt := base.T.Underlying().(type) {
	case *types.Pointer:
		if at, ok := bt.Elem().Underlying().(*types.Array); ok && base.Addr == nil {
			n := IntLit(at.Len())
			lo := get(x.Low, IntLit(0))
			hi := get(x.High, n)
			mx := get(x.Max, n)
			e.safety("slice", "array", reach, And(Bin(SBool, "<=", IntLit(0), lo), Bin(SBool, "<=", lo, hi), Bin(SBool, "<=", hi, mx), Bin(SBool, "<=", mx, n)))
			return Val{T: x.Type(), L: []Term{base.L[0], lo, e.define("sl", Bin(SInt, "-", hi, lo)), e.define("sc", Bin(SInt, "-", mx, lo))}}
		}
	case *types.Slice:
		arr, off, ln, cp := base.L[0], base.L[1], base.L[2], base.L[3]
		lo := get(x.Low, IntLit(0))
		hi := get(x.High, ln)
		mx := get(x.Max, cp)
		e.safety("slice", "bounds", reach, And(Bin(SBool, "<=", IntLit(0), lo), Bin(SBool, "<=", lo, hi), Bin(SBool, "<=", hi, mx), Bin(SBool, "<=", mx, cp)))
		return Val{T: x.Type(), L: []Term{arr, e.define("so", Bin(SInt, "+", off, lo)), e.define("sl", Bin(SInt, "-", hi, lo)), e.define("sc", Bin(SInt, "-", mx, lo))}}
	case *types.Basic:
		// string slicing
		s := base.scalar()
		ln := T(SInt, "(strlen %s)", s)
		lo := get(x.Low, IntLit(0))
		hi := get(x.High, ln)
		e.safety("slice", "string", reach, And(Bin(SBool, "<=", IntLit(0), lo), Bin(SBool, "<=", lo, hi), Bin(SBool, "<=", hi, ln)))
		fn := e.declareFun("str_sub", []Sort{SStr, SInt, SInt}, SStr)
		r := e.define("sub", T(SStr, "(%s %s %s %s)", fn, s, lo, hi))
		e.assume(reach, Eq(T(SInt, "(strlen %s)", r), Bin(SInt, "-", hi, lo)))
		return Val{T: x.Type(), L: []Term{r}}
	}
	e.note("unsupported slice of %s", typeID(base.T))
	return e.havocVal(reach, "slice", x.Type())
}

// ---------------------------------------------------------------- maps

func mapComps(mt *types.Map) (id string, ks Sort) {
	return "M." + typeID(mt) + ".", Layout(mt.Key())[0].Sort
}

func (e *Engine) lookup(fr *Frame, st *State, reach Term, x *ssa.Lookup) Val {
	m := e.valueOf(fr, st, x.X)
	k := e.valueOf(fr, st, x.Index)
	if b, ok := m.T.Underlying().(*types.Basic); ok && b.Info()&types.IsString != 0 {
		idx := k.scalar()
		e.safety("index", "string", reach, And(Bin(SBool, "<=", IntLit(0), idx), Bin(SBool, "<", idx, T(SInt, "(strlen %s)", m.L[0]))))
		r := e.define("ch", T(SInt, "(strat %s %s)", m.L[0], idx))
		e.assume(reach, And(Bin(SBool, "<=", IntLit(0), r), Bin(SBool, "<=", r, IntLit(255))))
		return Val{T: x.Type(), L: []Term{r}}
	}
	mt := m.T.Underlying().(*types.Map)
	id, ks := mapComps(mt)
	ref := m.L[0]
	e.lockCheckMap(st, reach, x.X, false)
	has := Select(Select(st.comp(id+"has", ArraySort(SInt, ArraySort(ks, SBool))), ref, ArraySort(ks, SBool)), k.L[0], SBool)
	has = Ite(Eq(ref, IntLit(0)), False, has) // nil map reads as empty
	has = e.define("has", has)
	vt := mt.Elem()
	out := Val{T: vt}
	z := zeroVal(vt)
	for i, lf := range Layout(vt) {
		arr := st.comp(id+"v."+lf.Path, ArraySort(SInt, ArraySort(ks, lf.Sort)))
		val := Select(Select(arr, ref, ArraySort(ks, lf.Sort)), k.L[0], lf.Sort)
		out.L = append(out.L, e.define("mv", Ite(has, val, z.L[i])))
	}
	e.assumeWFLoaded(reach, out)
	for i, l := range Layout(out.T) {
		if l.Kind == kRef || l.Kind == kSlArr || l.Kind == kIfRef {
			e.outsideRef(reach, out.L[i])
		}
	}
	if x.CommaOk {
		res := Val{T: x.Type(), L: append(append([]Term{}, out.L...), has)}
		return res
	}
	return out
}

func (e *Engine) mapUpdate(fr *Frame, st *State, reach Term, x *ssa.MapUpdate) {
	m := e.valueOf(fr, st, x.Map)
	k := e.valueOf(fr, st, x.Key)
	v := e.valueOf(fr, st, x.Value)
	mt := m.T.Underlying().(*types.Map)
	id, ks := mapComps(mt)
	ref := m.L[0]
	e.safety("mapnilwrite", "update", reach, Not(Eq(ref, IntLit(0))))
	e.lockCheckMap(st, reach, x.Map, true)
	hasArr := st.comp(id+"has", ArraySort(SInt, ArraySort(ks, SBool)))
	inner := Select(hasArr, ref, ArraySort(ks, SBool))
	was := Select(inner, k.L[0], SBool)
	card := st.comp(id+"card", ArraySort(SInt, SInt))
	st.setComp(id+"card", e.define("h", Store(card, ref, Ite(was, Select(card, ref, SInt), Bin(SInt, "+", Select(card, ref, SInt), IntLit(1))))))
	st.setComp(id+"has", e.define("h", Store(hasArr, ref, Store(inner, k.L[0], True))))
	fl := e.flat(st, reach, v)
	for i, lf := range Layout(mt.Elem()) {
		name := id + "v." + lf.Path
		arr := st.comp(name, ArraySort(SInt, ArraySort(ks, lf.Sort)))
		in := Select(arr, ref, ArraySort(ks, lf.Sort))
		st.setComp(name, e.define("h", Store(arr, ref, Store(in, k.L[0], fl[i]))))
	}
}

// next models one step of a range iteration over a map or string.
func (e *Engine) next(fr *Frame, st *State, reach Term, x *ssa.Next) Val {
	rng := x.Iter.(*ssa.Range)
	coll := e.rangeOf[rng]
	tt := x.Type().(*types.Tuple)
	ok := e.fresh("next.ok", SBool)
	out := Val{T: tt, L: []Term{ok}}
	if mt, isMap := coll.T.Underlying().(*types.Map); isMap {
		id, ks := mapComps(mt)
		ref := coll.L[0]
		kv := e.havocVal(reach, "next.k", mt.Key())
		hasArr := e.name("nhas", Select(st.comp(id+"has", ArraySort(SInt, ArraySort(ks, SBool))), ref, ArraySort(ks, SBool)))
		has := Select(hasArr, kv.L[0], SBool)
		e.assume(reach, Implies(ok, And(Not(Eq(ref, IntLit(0))), has)))
		// ghost: the set of keys already visited by this iteration
		vname := "V.visited." + rng.Name()
		vis := e.name("nvis", st.comp(vname, ArraySort(ks, SBool)))
		e.assume(reach, Implies(ok, Not(Select(vis, kv.L[0], SBool))))
		qk := "(nk " + string(ks) + ")"
		e.assume(reach, Implies(Not(ok), T(SBool, "(forall (%s) (! (=> (and (not (= %s 0)) (select %s nk)) (select %s nk)) :pattern ((select %s nk))))", qk, ref, hasArr, vis, hasArr)))
		st.setComp(vname, e.define("vis", Ite(ok, Store(vis, kv.L[0], True), vis)))
		e.ghost["$visited"] = Term{}
		e.curVisited = vname
		var vals []Term
		for _, lf := range Layout(mt.Elem()) {
			arr := st.comp(id+"v."+lf.Path, ArraySort(SInt, ArraySort(ks, lf.Sort)))
			vals = append(vals, e.define("nv", Select(Select(arr, ref, ArraySort(ks, lf.Sort)), kv.L[0], lf.Sort)))
		}
		vv := Val{T: mt.Elem(), L: vals}
		e.assumeWFLoaded(reach, vv)
		// tuple (ok, k, v) — k/v slots may be typed invalid when unused
		if len(Layout(tt.At(1).Type())) == len(kv.L) {
			out.L = append(out.L, kv.L...)
		} else {
			out.L = append(out.L, zeroVal(tt.At(1).Type()).L...)
		}
		if len(Layout(tt.At(2).Type())) == len(vals) {
			out.L = append(out.L, vals...)
		} else {
			out.L = append(out.L, zeroVal(tt.At(2).Type()).L...)
		}
		e.ghost["lastnext.k"] = kv.L[0]
		return out
	}
	e.note("range over %s not modelled precisely", typeID(coll.T))
	out.L = append(out.L, e.havocVal(reach, "next.k", tt.At(1).Type()).L...)
	out.L = append(out.L, e.havocVal(reach, "next.v", tt.At(2).Type()).L...)
	return out
}
