package main

// Engine: per-function verification context (declarations, assumptions, obligations) and the
// symbolic state (cells for non-escaping locals, typed heap components, defer stack).

import (
	"fmt"
	"os"
	"go/token"
	"go/types"
	"regexp"
	"sort"
	"strings"

	"golang.org/x/tools/go/ssa"
)

type Obligation struct {
	ID      string
	Func    string
	Kind    string
	Props   []string
	Desc    string
	Pos     string
	Reach   Term
	Cond    Term
	NAssume int
	Expect  string // "unsat" (default) or "sat" (cover query)
	Result  SolveResult
	All     []SolveResult
	Watch   []string
	Query   string
	Clause  *Clause
	// AssumeIdx: index (in Engine.assumes) of the assumption this obligation leaves behind for later ones
	// (assume-after-assert), -1 if none. Drop: assumption indices left out when the query was built.
	AssumeIdx int
	Drop      map[int]bool
	Unserved  bool   // solved only because later obligations assume it (check command)
	Note      string
}

type callLabel struct {
	Callee  string // callee id ("" for dynamic calls)
	Reach   Term
	Args    []Val
	Results []Val
	After   *State // state right after the call (contract builtin after(label, expr))
}

type Engine struct {
	P        *Program
	Fn       *ssa.Function
	FC       *FuncContract
	FuncID   string
	decls    []string
	declared map[string]bool
	assumes  []Term
	obls     []*Obligation
	nfresh   int
	sites    int
	siteType map[int]types.Type
	reified  map[int]bool
	labels   map[string]*callLabel
	callOrd  map[string]int
	kindOrd  map[string]int
	notes    map[string]bool
	used     map[string]bool // extern specs / assumed contracts used
	strlits  map[string]string
	depth    int
	inlineN  int
	epoch    int
	watch    []string
	old      *State
	params   map[string]Val
	paramOrd []string
	ghost    map[string]Term
	curPos   token.Pos
	safetyOn bool
	inlining []*ssa.Function
	loopPre   map[string]*State
	autoInvs  map[string][]autoChk
	cerrors   []string
	tupleClo  map[ssa.Value]map[int]*Closure
	rangeOf   map[*ssa.Range]Val
	deferOrd  int
	allocAll  bool
	goTargets []goTarget
	strSeen   map[string]bool
	decEntry  Term
	curLoopState *State
	curVisited string
	siteDeps  map[string][]int
	closedDone map[string]bool
	compWM    map[string]Term // watermark at the time a havoc'd component constant was created
	exposing  bool
	allocExtra Term
	wm        Term // watermark: every object that exists so far (including those allocated by earlier callees) is <= wm
	wmCall    Term // watermark just before the call whose postcondition is being evaluated
	wmN       int
	curLockOwner *lockOwner
	lockChecks bool
	unclassified map[string]bool
	outerDefers  [][]*deferEntry // deferred calls of the frames around the callee being inlined
	unwinding    int // > 0 while deferred calls are being run (the remaining deferred unlocks still run after a panic there)
	idSeen       map[string]int
	guardedWrites map[string]string // lock-guarded components this function writes (itself or through callee contracts)
	ownedVals    map[string]*ownedRec // references loaded from `owns` fields (by term) -> protecting lock
	globalVals   map[string]string    // references loaded from package variables without a declared lock (by term) -> variable
	inQuant   int
	bodyOrd   map[string]int
	noOutside bool
	needs     map[int][]string // conditional assumptions: included only when one of the symbols occurs in the query
}

func NewEngine(p *Program, fn *ssa.Function, fc *FuncContract) *Engine {
	return &Engine{P: p, Fn: fn, FC: fc, FuncID: p.FuncIDOf(fn), declared: map[string]bool{}, reified: map[int]bool{},
		labels: map[string]*callLabel{}, callOrd: map[string]int{}, kindOrd: map[string]int{}, notes: map[string]bool{},
		used: map[string]bool{}, strlits: map[string]string{}, siteType: map[int]types.Type{}, params: map[string]Val{},
		ghost: map[string]Term{}, safetyOn: true, lockChecks: true, loopPre: map[string]*State{}, autoInvs: map[string][]autoChk{}, rangeOf: map[*ssa.Range]Val{}, strSeen: map[string]bool{}, unclassified: map[string]bool{}, bodyOrd: map[string]int{}, needs: map[int][]string{}, siteDeps: map[string][]int{}, closedDone: map[string]bool{}, compWM: map[string]Term{}}
}

func (e *Engine) note(format string, args ...interface{}) {
	e.notes[fmt.Sprintf(format, args...)] = true
}

func (e *Engine) declare(name string, sort Sort) Term {
	q := quoteSym(name)
	if !e.declared[q] {
		e.declared[q] = true
		e.decls = append(e.decls, fmt.Sprintf("(declare-const %s %s)", q, sort))
	}
	return Term{q, sort}
}

func (e *Engine) declareFun(name string, args []Sort, res Sort) string {
	q := quoteSym(name)
	if !e.declared[q] {
		e.declared[q] = true
		var a []string
		for _, s := range args {
			a = append(a, string(s))
		}
		e.decls = append(e.decls, fmt.Sprintf("(declare-fun %s (%s) %s)", q, strings.Join(a, " "), res))
	}
	return q
}

func (e *Engine) fresh(prefix string, sort Sort) Term {
	e.nfresh++
	return e.declare(fmt.Sprintf("%s!%d", prefix, e.nfresh), sort)
}

// define introduces a named constant equal to t (keeps query text linear in the presence of merges).
func (e *Engine) define(prefix string, t Term) Term {
	if len(t.S) < 40 || e.inQuant > 0 {
		return t
	}
	c := e.fresh(prefix, t.Sort)
	e.assumes = append(e.assumes, Eq(c, t))
	if ds := e.sitesIn(t.S); len(ds) > 0 {
		e.siteDeps[c.S] = ds
	}
	return c
}

var siteRe = regexp.MustCompile(`\(\+ alloc0 (\d+)\)`)
var tokRe = regexp.MustCompile(`[A-Za-z_][A-Za-z0-9_.!@$]*|\|[^|]*\|`)

// sitesIn: local allocation sites a term may denote (directly or through defined constants).
func (e *Engine) sitesIn(s string) []int {
	seen := map[int]bool{}
	var out []int
	for _, m := range siteRe.FindAllStringSubmatch(s, -1) {
		var k int
		fmt.Sscan(m[1], &k)
		if !seen[k] {
			seen[k] = true
			out = append(out, k)
		}
	}
	if len(e.siteDeps) > 0 {
		for _, tok := range tokRe.FindAllString(s, -1) {
			for _, k := range e.siteDeps[tok] {
				if !seen[k] {
					seen[k] = true
					out = append(out, k)
				}
			}
		}
	}
	return out
}

// expose marks the allocation sites a value may refer to as visible to the outside world.
func (e *Engine) expose(ts []Term) {
	for _, t := range ts {
		if t.Sort != SInt {
			continue
		}
		for _, k := range e.sitesIn(t.S) {
			e.reified[k] = true
		}
	}
}

// strTerm registers a string-sorted term and instantiates the string axioms for it
// (ground instances instead of quantified axioms keep satisfiable queries decidable).
func (e *Engine) strTerm(t Term) Term {
	if t.Sort != SStr || t.S == "str_empty" || e.strSeen[t.S] || e.inQuant > 0 {
		return t
	}
	e.strSeen[t.S] = true
	e.assumes = append(e.assumes, T(SBool, "(and (>= (strlen %s) 0) (<= (strlen %s) 4611686018427387904) (=> (= (strlen %s) 0) (= %s str_empty)))", t.S, t.S, t.S, t.S))
	return t
}

// assumeIfRelevant adds an assumption that is only emitted into queries mentioning one of the symbols.
func (e *Engine) assumeIfRelevant(t Term, symbols []string) {
	if len(symbols) == 0 {
		e.assumes = append(e.assumes, t)
		return
	}
	e.needs[len(e.assumes)] = symbols
	e.assumes = append(e.assumes, t)
}

var symRe = regexp.MustCompile(`\|?(spec\.[A-Za-z0-9_/]+|str_fold|str_lower|str_hasprefix|bxor|G\.[A-Za-z0-9_.$]+)\|?`)

// symbolsOf: uninterpreted functions and global components a formula talks about.
func symbolsOf(t Term) []string {
	seen := map[string]bool{}
	var out []string
	for _, m := range symRe.FindAllStringSubmatch(t.S, -1) {
		if !seen[m[1]] {
			seen[m[1]] = true
			out = append(out, m[1])
		}
	}
	return out
}

// name always introduces a constant for a compound term (needed where the term occurs in a quantifier pattern).
func (e *Engine) name(prefix string, t Term) Term {
	if !strings.ContainsAny(t.S, "( ") {
		return t
	}
	c := e.fresh(prefix, t.Sort)
	e.assumes = append(e.assumes, Eq(c, t))
	if ds := e.sitesIn(t.S); len(ds) > 0 {
		e.siteDeps[c.S] = ds
	}
	return c
}

func (e *Engine) assume(reach, t Term) {
	a := Implies(reach, t)
	if a.S == "true" {
		return
	}
	e.assumes = append(e.assumes, a)
}

func (e *Engine) strLit(s string) Term {
	if s == "" {
		return Term{"str_empty", SStr}
	}
	if n, ok := e.strlits[s]; ok {
		return Term{n, SStr}
	}
	n := quoteSym(fmt.Sprintf("lit%d:%s", len(e.strlits), abbreviate(s)))
	e.strlits[s] = n
	return Term{n, SStr}
}

func abbreviate(s string) string {
	var b strings.Builder
	for _, c := range s {
		if c >= 'a' && c <= 'z' || c >= 'A' && c <= 'Z' || c >= '0' && c <= '9' || c == '_' || c == '.' || c == '-' || c == '#' {
			b.WriteRune(c)
		} else {
			b.WriteRune('~')
		}
		if b.Len() > 24 {
			break
		}
	}
	return b.String()
}

func (e *Engine) posString(p token.Pos) string {
	if !p.IsValid() {
		p = e.curPos
	}
	if !p.IsValid() {
		return ""
	}
	pos := e.P.Prog.Fset.Position(p)
	return fmt.Sprintf("%s:%d", strings.TrimPrefix(pos.Filename, e.P.Dir+"/"), pos.Line)
}

// oblige records a proof obligation "reach => cond" at the current point.
func (e *Engine) oblige(kind, name, desc string, reach, cond Term, clause *Clause) *Obligation {
	if !e.safetyOn && clause == nil {
		return nil
	}
	// a rule violation that holds on every path (condition literally false, not under any branch) needs no solver
	trivialViolation := cond.S == "false" && reach.S == "true"
	// obligation ids are unique within a function: a second obligation of the same name (second back edge of a
	// loop, second path through an inlined callee) gets an ordinal
	if e.idSeen == nil {
		e.idSeen = map[string]int{}
	}
	e.idSeen[name]++
	if k := e.idSeen[name]; k > 1 {
		name = fmt.Sprintf("%s~%d", name, k)
	}
	if cond.S == "true" || reach.S == "false" {
		// trivially discharged; still counted so that evidence reports it
		o := &Obligation{ID: e.FuncID + "#" + name, Func: e.FuncID, Kind: kind, Desc: desc, Pos: e.posString(token.NoPos),
			Reach: reach, Cond: cond, NAssume: len(e.assumes), Expect: "unsat", Clause: clause, AssumeIdx: -1}
		o.Result = SolveResult{Status: "unsat", Solver: "trivial"}
		e.obls = append(e.obls, o)
		return o
	}
	o := &Obligation{ID: e.FuncID + "#" + name, Func: e.FuncID, Kind: kind, Desc: desc, Pos: e.posString(token.NoPos),
		Reach: reach, Cond: cond, NAssume: len(e.assumes), Expect: "unsat", Clause: clause, AssumeIdx: -1}
	e.obls = append(e.obls, o)
	if trivialViolation {
		o.Result = SolveResult{Status: "sat", Solver: "trivial", Output: "the rule is violated on every path (no solver needed)"}
	}
	// assume-after-assert (not for conditions that are plainly false: rule violations such as a write to an
	// immutable field must not make the rest of the function vacuous)
	if cond.S != "false" {
		n := len(e.assumes)
		e.assume(reach, cond)
		if len(e.assumes) == n+1 {
			o.AssumeIdx = n
		}
	}
	return o
}

// safety obligation with automatic ordinal: kind@what#k
func (e *Engine) safety(kind, what string, reach, cond Term) {
	if len(e.inlining) > 0 {
		what = e.inlining[len(e.inlining)-1].Name() + "." + what
	}
	key := kind + "@" + what
	e.kindOrd[key]++
	e.oblige(kind, fmt.Sprintf("%s#%d", key, e.kindOrd[key]), kind+" check at "+what, reach, cond, nil)
}

// BuildQuery renders the SMT-LIB text of an obligation. With groundOnly, quantified assumptions are
// dropped (used only to retry cover queries that time out: fewer constraints can only make "sat" easier,
// so an "unsat" answer still proves the path inconsistent).
func (e *Engine) BuildQuery(o *Obligation) string {
	if len(o.Drop) > 0 {
		only := map[int]bool{}
		for i := 0; i < o.NAssume; i++ {
			if !o.Drop[i] {
				only[i] = true
			}
		}
		return e.buildQueryWith(o, false, only)
	}
	return e.buildQuery(o, false)
}

// sliceAssumptions: indices of the assumptions in the cone of influence of the obligation (connected to it
// through shared declared symbols). Dropping assumptions can only make a proof harder, never unsound; the
// caller falls back to the full set when the sliced query is not discharged.
func (e *Engine) sliceAssumptions(o *Obligation) map[int]bool {
	ubiq := func(t string) bool {
		return t == "alloc0" || t == "rtype" || t == "strlen" || t == "str_empty" || strings.HasPrefix(t, "wm!") || t == "select" || t == "store" || t == "and" || t == "or" || t == "not" || t == "ite" || t == "forall" || t == "let" || t == "mod" || t == "div"
	}
	syms := func(s string) []string {
		var out []string
		for _, t := range tokRe.FindAllString(s, -1) {
			if !ubiq(t) && e.declared[t] {
				out = append(out, t)
			}
		}
		return out
	}
	n := o.NAssume
	asyms := make([][]string, n)
	bySym := map[string][]int{}
	for i := 0; i < n; i++ {
		asyms[i] = syms(e.assumes[i].S)
		for _, t := range asyms[i] {
			bySym[t] = append(bySym[t], i)
		}
	}
	keep := map[int]bool{}
	seen := map[string]bool{}
	var work []string
	for _, t := range append(syms(o.Reach.S), syms(o.Cond.S)...) {
		if !seen[t] {
			seen[t] = true
			work = append(work, t)
		}
	}
	for len(work) > 0 {
		t := work[len(work)-1]
		work = work[:len(work)-1]
		for _, i := range bySym[t] {
			if keep[i] {
				continue
			}
			keep[i] = true
			for _, u := range asyms[i] {
				if !seen[u] {
					seen[u] = true
					work = append(work, u)
				}
			}
		}
	}
	// assumptions without any declared symbol (pure arithmetic facts about alloc0 etc.) are always kept
	for i := 0; i < n; i++ {
		if len(asyms[i]) == 0 {
			keep[i] = true
		}
	}
	return keep
}

func (e *Engine) buildQuery(o *Obligation, groundOnly bool) string { return e.buildQueryWith(o, groundOnly, nil) }

func (e *Engine) buildQueryWith(o *Obligation, groundOnly bool, only map[int]bool) string {
	var b strings.Builder
	b.WriteString("(set-option :produce-models true)\n(set-logic ALL)\n")
	b.WriteString(preludeInt)
	// string literals: distinct constants with known length (deterministic order)
	var litKeys []string
	for s := range e.strlits {
		litKeys = append(litKeys, s)
	}
	sort.Strings(litKeys)
	var lits []string
	for _, s := range litKeys {
		n := e.strlits[s]
		b.WriteString(fmt.Sprintf("(declare-const %s Str)\n(assert (= (strlen %s) %d))\n", n, n, len(s)))
		lits = append(lits, n)
	}
	sort.Strings(lits)
	if len(lits) > 1 {
		b.WriteString("(assert (distinct " + strings.Join(lits, " ") + "))\n")
	}
	for _, s := range litKeys {
		n := e.strlits[s]
		for _, s2 := range litKeys {
			n2 := e.strlits[s2]
			if s != s2 && strings.HasPrefix(s, s2) {
				b.WriteString(fmt.Sprintf("(assert (str_hasprefix %s %s))\n", n, n2))
			} else if s != s2 && len(litKeys) <= 24 {
				b.WriteString(fmt.Sprintf("(assert (not (str_hasprefix %s %s)))\n", n, n2))
			}
		}
		// lower-casing of literals
		low := strings.ToLower(s)
		if n2, ok := e.strlits[low]; ok {
			b.WriteString(fmt.Sprintf("(assert (= (str_lower %s) %s))\n", n, n2))
		}
	}
	b.WriteString(e.P.SpecPrelude())
	for _, d := range e.decls {
		b.WriteString(d)
		b.WriteByte('\n')
	}
	// unconditional part first; axioms / global invariants only when something they talk about occurs
	var body strings.Builder
	var cond []int
	for i, a := range e.assumes[:o.NAssume] {
		if only != nil && !only[i] {
			continue
		}
		if groundOnly && strings.Contains(a.S, "(forall ") {
			continue
		}
		if _, c := e.needs[i]; c {
			cond = append(cond, i)
			continue
		}
		body.WriteString("(assert " + a.S + ")\n")
	}
	body.WriteString("(assert " + o.Reach.S + ")\n")
	if o.Expect == "sat" {
		body.WriteString("(assert " + o.Cond.S + ")\n")
	} else {
		body.WriteString("(assert (not " + o.Cond.S + "))\n")
	}
	included := map[int]bool{}
	for round := 0; round < 3; round++ {
		txt := body.String()
		for _, i := range cond {
			if included[i] {
				continue
			}
			if only != nil && !only[i] {
				continue
			}
			for _, sym := range e.needs[i] {
				if strings.Contains(txt, sym) {
					included[i] = true
					body.WriteString("(assert " + e.assumes[i].S + ")\n")
					break
				}
			}
		}
	}
	if !groundOnly && strings.Contains(body.String(), "zarr.Str") {
		b.WriteString("(assert (forall ((i Int)) (! (= (select zarr.Str i) str_empty) :pattern ((select zarr.Str i)))))\n")
	}
	b.WriteString(body.String())
	b.WriteString("(check-sat)\n")
	w := append([]string{}, e.watch...)
	w = append(w, o.Watch...)
	if rx := os.Getenv("GOVC_WATCH"); rx != "" {
		re := regexp.MustCompile(rx)
		for _, d := range e.decls {
			f := strings.Fields(d)
			if len(f) >= 3 && f[0] == "(declare-const" && re.MatchString(f[1]) && !strings.HasPrefix(f[2], "(Array") {
				w = append(w, f[1])
			}
		}
	}
	if len(w) > 0 {
		b.WriteString("(get-value (" + strings.Join(w, " ") + "))\n")
	}
	return b.String()
}

// ---------------------------------------------------------------- state

type deferEntry struct {
	guard Term
	instr *ssa.Defer
	fr    *Frame
	fn    Val
	args  []Val
	recv  *Val
	order int
}

type State struct {
	e      *Engine
	cells  map[*ssa.Alloc][]Term
	heap   map[string]Term
	base   func(name string, sort Sort) Term
	defers []*deferEntry
	held   map[string]Term // lock id -> mode term (0 none, 1 R, 2 W); ghost
	acquired map[string]Term // mutexes locked on this path by the function under verification (deferred-unlock rule)
	acqWhen  map[string]Term // path condition under which each of them was locked
}

func (e *Engine) newState() *State {
	s := &State{e: e, cells: map[*ssa.Alloc][]Term{}, heap: map[string]Term{}, held: map[string]Term{}}
	s.base = func(name string, sort Sort) Term { return e.declare(name+"@0", sort) }
	return s
}

func (s *State) clone() *State {
	c := &State{e: s.e, cells: make(map[*ssa.Alloc][]Term, len(s.cells)), heap: make(map[string]Term, len(s.heap)), base: s.base,
		held: make(map[string]Term, len(s.held))}
	for k, v := range s.cells {
		c.cells[k] = v
	}
	for k, v := range s.heap {
		c.heap[k] = v
	}
	for k, v := range s.held {
		c.held[k] = v
	}
	c.defers = append([]*deferEntry{}, s.defers...)
	if len(s.acquired) > 0 {
		c.acquired = make(map[string]Term, len(s.acquired))
		for k, v := range s.acquired {
			c.acquired[k] = v
		}
		c.acqWhen = make(map[string]Term, len(s.acqWhen))
		for k, v := range s.acqWhen {
			c.acqWhen[k] = v
		}
	}
	return c
}

func (s *State) comp(name string, sort Sort) Term {
	if t, ok := s.heap[name]; ok {
		return t
	}
	t := s.base(name, sort)
	s.heap[name] = t
	return t
}

func (s *State) setComp(name string, t Term) { s.heap[name] = t }

// havocPrefix forgets every heap component whose name starts with one of the prefixes ("" = all).
func (s *State) havocPrefix(prefixes []string, keepSites bool) {
	e := s.e
	e.epoch++
	ep := e.epoch
	wmNow := e.watermark()
	match := func(name string) bool {
		if name == lockComp && !(len(prefixes) == 1 && prefixes[0] == lockComp) {
			// the lockset changes only through lock operations and contracts that name L.held explicitly
			explicit := false
			for _, p := range prefixes {
				if p == lockComp {
					explicit = true
				}
			}
			if !explicit {
				return false
			}
		}
		for _, p := range prefixes {
			if p == "" || name == p || strings.HasPrefix(name, p+".") || strings.HasPrefix(name, p) && strings.HasSuffix(p, ".") || p == "X.fs" && strings.HasPrefix(name, "X.fs_") {
				return true
			}
		}
		return false
	}
	oldBase := s.base
	oldHeap := map[string]Term{}
	for k, v := range s.heap {
		oldHeap[k] = v
	}
	for name, old := range s.heap {
		if match(name) {
			nw := e.declare(fmt.Sprintf("%s@h%d", name, ep), old.Sort)
			e.compWM[nw.S] = wmNow
			s.heap[name] = nw
			if keepSites {
				e.preserveSites(name, old, nw)
			}
		}
	}
	s.base = func(name string, sort Sort) Term {
		if match(name) {
			nw := e.declare(fmt.Sprintf("%s@h%d", name, ep), sort)
			e.compWM[nw.S] = wmNow
			if keepSites {
				var old Term
				if o, ok := oldHeap[name]; ok {
					old = o
				} else {
					old = oldBase(name, sort)
				}
				e.preserveSites(name, old, nw)
			}
			return nw
		}
		return oldBase(name, sort)
	}
}

// havocObject: the object at ref changes arbitrarily, whatever its type (all H components).
func (s *State) havocObject(ref Term) {
	e := s.e
	e.epoch++
	ep := e.epoch
	upd := func(name string, old Term) Term {
		elem := arrayElemSort(old.Sort)
		nv := e.declare(fmt.Sprintf("%s@o%d", name, ep), elem)
		return e.define("h", Store(old, ref, nv))
	}
	for name, old := range s.heap {
		if strings.HasPrefix(name, "H.") {
			s.heap[name] = upd(name, old)
		}
	}
	oldBase := s.base
	s.base = func(name string, sort Sort) Term {
		t := oldBase(name, sort)
		if strings.HasPrefix(name, "H.") {
			return upd(name, t)
		}
		return t
	}
}

// preserveSites: objects allocated locally whose reference never left this function are untouched by callees.
func (e *Engine) preserveSites(name string, old, nw Term) {
	if !strings.HasPrefix(name, "H.") {
		return
	}
	for k := 1; k <= e.sites; k++ {
		if e.reified[k] {
			continue
		}
		t := e.siteType[k]
		if t == nil || !strings.HasPrefix(name, "H."+typeID(t)+".") && name != "H."+typeID(t) {
			continue
		}
		r := e.siteRef(k)
		elem := arrayElemSort(old.Sort)
		e.assumes = append(e.assumes, Eq(Select(nw, r, elem), Select(old, r, elem)))
	}
}

func (e *Engine) siteRef(k int) Term { return T(SInt, "(+ alloc0 %d)", k) }

func (e *Engine) newSite(t types.Type) (int, Term) {
	e.sites++
	e.siteType[e.sites] = t
	e.declare("alloc0", SInt)
	r := e.siteRef(e.sites)
	if _, isIface := t.Underlying().(*types.Interface); !isIface {
		if pt, isPtr := t.Underlying().(*types.Pointer); isPtr {
			// a fresh result of pointer type: the new object has the pointee type
			e.assumes = append(e.assumes, Eq(T(SInt, "(rtype %s)", r), IntLit(int64(e.P.typeTag(pt.Elem())))))
		} else {
			e.assumes = append(e.assumes, Eq(T(SInt, "(rtype %s)", r), IntLit(int64(e.P.typeTag(t)))))
		}
	}
	return e.sites, r
}

// outsideRef: a reference obtained from outside (parameter, heap load, call result) is none of the
// local allocation sites whose reference has not left this function.
func (e *Engine) outsideRef(reach Term, r Term) {
	if e.inQuant > 0 {
		return
	}
	// numbering convention: objects existing at entry are <= alloc0, this activation's allocation sites
	// are alloc0+1 .. alloc0+10^6, objects allocated by callees (or by earlier loop iterations) lie above.
	e.declare("alloc0", SInt)
	cs := []Term{Bin(SBool, "<=", r, Term{"alloc0", SInt}), And(T(SBool, "(> %s (+ alloc0 1000000))", r), Bin(SBool, "<=", r, e.watermark()))}
	for k := 1; k <= e.sites; k++ {
		if e.reified[k] {
			cs = append(cs, Eq(r, e.siteRef(k)))
		}
	}
	e.assume(reach, Or(cs...))
}

// watermark: upper bound of every object reference that exists at the current point.
func (e *Engine) watermark() Term {
	if e.wm.S == "" {
		e.declare("alloc0", SInt)
		e.wm = T(SInt, "(+ alloc0 1000000)")
	}
	return e.wm
}

// bumpWatermark: a callee may have allocated objects; they lie above the old watermark and below the new one.
func (e *Engine) bumpWatermark() (old Term) {
	old = e.watermark()
	e.wmN++
	nw := e.declare(fmt.Sprintf("wm!%d", e.wmN), SInt)
	e.assumes = append(e.assumes, Bin(SBool, ">", nw, old))
	e.wm = nw
	return old
}

// mergeStates joins states along edges with the given (mutually exclusive) conditions.
func (e *Engine) mergeStates(conds []Term, sts []*State) *State {
	if len(sts) == 1 {
		return sts[0].clone()
	}
	// snapshot the predecessors: callers may overwrite them in place afterwards
	snap := make([]*State, len(sts))
	for i := range sts {
		snap[i] = sts[i].clone()
	}
	sts = snap
	m := &State{e: e, cells: map[*ssa.Alloc][]Term{}, heap: map[string]Term{}, held: map[string]Term{}}
	pick := func(prefix string, ts []Term) Term {
		same := true
		for _, t := range ts[1:] {
			if t.S != ts[0].S {
				same = false
				break
			}
		}
		if same {
			return ts[0]
		}
		r := ts[len(ts)-1]
		for i := len(ts) - 2; i >= 0; i-- {
			r = Ite(conds[i], ts[i], r)
		}
		c := e.fresh(prefix, ts[0].Sort)
		e.assumes = append(e.assumes, Eq(c, r))
		return c
	}
	// cells
	allCells := map[*ssa.Alloc]bool{}
	for _, s := range sts {
		for a := range s.cells {
			allCells[a] = true
		}
	}
	for a := range allCells {
		var width int
		for _, s := range sts {
			if c, ok := s.cells[a]; ok {
				width = len(c)
			}
		}
		out := make([]Term, width)
		for i := 0; i < width; i++ {
			var ts []Term
			var cs []Term
			for j, s := range sts {
				if c, ok := s.cells[a]; ok {
					ts = append(ts, c[i])
					cs = append(cs, conds[j])
				}
			}
			if len(ts) == len(sts) {
				out[i] = pick("m."+a.Comment, ts)
			} else {
				// cell not live on some incoming path: any value is fine there
				save := conds
				conds = cs
				out[i] = pick("m."+a.Comment, ts)
				conds = save
			}
		}
		m.cells[a] = out
	}
	// heap
	names := map[string]Sort{}
	for _, s := range sts {
		for n, t := range s.heap {
			names[n] = t.Sort
		}
	}
	var sorted []string
	for n := range names {
		sorted = append(sorted, n)
	}
	sort.Strings(sorted)
	for _, n := range sorted {
		var ts []Term
		for _, s := range sts {
			ts = append(ts, s.comp(n, names[n]))
		}
		m.heap[n] = pick("m."+n, ts)
	}
	memo := map[string]Term{}
	m.base = func(name string, sort Sort) Term {
		if t, ok := memo[name]; ok {
			return t
		}
		var ts []Term
		for _, s := range sts {
			ts = append(ts, s.comp(name, sort))
		}
		t := pick("m."+name, ts)
		memo[name] = t
		return t
	}
	// locks
	lk := map[string]bool{}
	for _, s := range sts {
		for n := range s.held {
			lk[n] = true
		}
	}
	for n := range lk {
		var ts []Term
		for _, s := range sts {
			if t, ok := s.held[n]; ok {
				ts = append(ts, t)
			} else {
				ts = append(ts, IntLit(0))
			}
		}
		m.held[n] = pick("m.held", ts)
	}
	for _, s := range sts {
		for k, v := range s.acquired {
			if m.acquired == nil {
				m.acquired = map[string]Term{}
				m.acqWhen = map[string]Term{}
			}
			m.acquired[k] = v
			w := s.acqWhen[k]
			if w.S == "" {
				w = True
			}
			if old, ok := m.acqWhen[k]; ok {
				m.acqWhen[k] = Or(old, w)
			} else {
				m.acqWhen[k] = w
			}
		}
	}
	// defers: union ordered by push order
	seen := map[*deferEntry]bool{}
	for _, s := range sts {
		for _, d := range s.defers {
			if !seen[d] {
				seen[d] = true
				m.defers = append(m.defers, d)
			}
		}
	}
	sort.SliceStable(m.defers, func(i, j int) bool { return m.defers[i].order < m.defers[j].order })
	return m
}

// ---------------------------------------------------------------- memory access

func compName(a *Addr, leaf Leaf) string {
	switch a.Kind {
	case aHeap:
		return "H." + typeID(a.Root) + "." + leaf.Path
	case aElem:
		return "E." + typeID(a.Root) + "." + leaf.Path
	case aGlobal:
		return "G." + a.Global.Pkg.Pkg.Name() + "." + a.Global.Name() + "." + leaf.Path
	}
	panic("compName on cell")
}

func (e *Engine) load(st *State, a *Addr) Val {
	n := len(Layout(a.T))
	v := Val{T: a.T, L: make([]Term, n)}
	switch a.Kind {
	case aCell:
		c, ok := st.cells[a.Cell]
		if !ok {
			// cell never initialised on this path (cannot happen for well-formed SSA): zero
			c = zeroVal(a.Cell.Type().(*types.Pointer).Elem()).L
			st.cells[a.Cell] = c
		}
		copy(v.L, c[a.Off:a.Off+n])
	case aHeap:
		root := Layout(a.Root)
		for i := 0; i < n; i++ {
			lf := root[a.Off+i]
			arr := st.comp(compName(a, lf), ArraySort(SInt, lf.Sort))
			v.L[i] = Select(arr, a.Ref, lf.Sort)
			e.closedHeap(arr, lf, false)
		}
	case aElem:
		root := Layout(a.Root)
		for i := 0; i < n; i++ {
			lf := root[a.Off+i]
			arr := st.comp(compName(a, lf), ArraySort(SInt, ArraySort(SInt, lf.Sort)))
			v.L[i] = Select(Select(arr, a.Ref, ArraySort(SInt, lf.Sort)), a.Idx, lf.Sort)
			e.closedHeap(arr, lf, true)
		}
	case aGlobal:
		root := Layout(a.Root)
		for i := 0; i < n; i++ {
			lf := root[a.Off+i]
			v.L[i] = st.comp(compName(a, lf), lf.Sort)
		}
	}
	for i := range v.L {
		if v.L[i].Sort == SStr {
			if a.Kind != aCell && len(v.L[i].S) > 40 {
				v.L[i] = e.define("s", v.L[i])
			}
			e.strTerm(v.L[i])
		}
	}
	return v
}

func (e *Engine) store(st *State, a *Addr, v Val) {
	n := len(Layout(a.T))
	if len(v.L) != n {
		panic(fmt.Sprintf("store width mismatch: %d vs %d for %v (val type %v) in %s", len(v.L), n, a.T, v.T, e.FuncID))
	}
	switch a.Kind {
	case aCell:
		old, ok := st.cells[a.Cell]
		if !ok {
			old = zeroVal(a.Cell.Type().(*types.Pointer).Elem()).L
		}
		c := append([]Term{}, old...)
		copy(c[a.Off:a.Off+n], v.L)
		st.cells[a.Cell] = c
	case aHeap:
		e.expose(v.L)
		root := Layout(a.Root)
		for i := 0; i < n; i++ {
			lf := root[a.Off+i]
			name := compName(a, lf)
			arr := st.comp(name, ArraySort(SInt, lf.Sort))
			st.setComp(name, e.define("h", Store(arr, a.Ref, v.L[i])))
		}
	case aElem:
		e.expose(v.L)
		root := Layout(a.Root)
		for i := 0; i < n; i++ {
			lf := root[a.Off+i]
			name := compName(a, lf)
			arr := st.comp(name, ArraySort(SInt, ArraySort(SInt, lf.Sort)))
			inner := Select(arr, a.Ref, ArraySort(SInt, lf.Sort))
			st.setComp(name, e.define("h", Store(arr, a.Ref, Store(inner, a.Idx, v.L[i]))))
		}
	case aGlobal:
		e.expose(v.L)
		root := Layout(a.Root)
		for i := 0; i < n; i++ {
			lf := root[a.Off+i]
			st.setComp(compName(a, lf), v.L[i])
		}
	}
}

// ptrAddr turns a pointer value into an address.
func (e *Engine) ptrAddr(v Val) *Addr {
	if v.Addr != nil {
		return v.Addr
	}
	pt, ok := v.T.Underlying().(*types.Pointer)
	if !ok {
		panic(fmt.Sprintf("ptrAddr on non-pointer %v", v.T))
	}
	return &Addr{Kind: aHeap, Ref: v.L[0], Root: pt.Elem(), T: pt.Elem()}
}

// reify turns a pointer value into a reference term (the value escapes into the logic).
func (e *Engine) reify(st *State, reach Term, v Val) Term {
	if v.Addr == nil {
		return v.L[0]
	}
	a := v.Addr
	if a.Site > 0 {
		e.reified[a.Site] = true
	}
	switch {
	case a.Kind == aHeap && a.Off == 0 && typeKey(a.T) == typeKey(a.Root):
		return a.Ref
	case a.Kind == aGlobal && a.Off == 0:
		g := e.declare("gaddr."+a.Global.Pkg.Pkg.Name()+"."+a.Global.Name(), SInt)
		if !e.strSeen["gaddr:"+g.S] {
			e.strSeen["gaddr:"+g.S] = true
			e.assumes = append(e.assumes, T(SBool, "(and (> %s 0) (<= %s alloc0) (= (rtype %s) %d))", g, g, g, e.P.typeTag(a.Root)))
		}
		return g
	}
	// interior pointer (field of a struct, slice element, non-escaping cell): materialise a copy.
	// Sound only if the receiver of the pointer does not write through it; recorded as assumption.
	e.note("interior pointer of type %s passed as read-only copy", typeID(a.T))
	cur := e.load(st, a)
	k, r := e.newSite(a.T)
	e.reified[k] = true
	e.store(st, &Addr{Kind: aHeap, Ref: r, Root: a.T, T: a.T}, cur)
	return r
}

// flat returns the leaves of v with pointers reified.
func (e *Engine) flat(st *State, reach Term, v Val) []Term {
	if v.Addr != nil {
		return []Term{e.reify(st, reach, v)}
	}
	if e.exposing {
		e.expose(v.L)
	}
	if v.Clo != nil && len(v.L) == 0 {
		return []Term{e.closureRef(v.Clo)}
	}
	return v.L
}

func (e *Engine) closureRef(c *Closure) Term {
	return e.declare("closure."+c.Fn.String(), SInt)
}

// closedHeap: references stored in the heap obey the numbering convention. For a component of the entry
// state every stored reference denotes an object that existed at entry; for a component produced by a later
// havoc it is an entry object, an object allocated by a callee, or one of this activation's sites that had
// been exposed by then. Emitted once per root component, only into queries that mention the component.
func (e *Engine) closedHeap(comp Term, lf Leaf, elems bool) {
	if lf.Kind != kRef && lf.Kind != kSlArr && lf.Kind != kIfRef {
		return
	}
	name := comp.S
	if strings.ContainsAny(name, "( ") || !strings.Contains(name, "@") || e.closedDone[name] {
		return
	}
	e.closedDone[name] = true
	e.declare("alloc0", SInt)
	sel := fmt.Sprintf("(select %s r)", name)
	vars := "(r Int)"
	if elems {
		sel = fmt.Sprintf("(select (select %s r) i)", name)
		vars = "(r Int) (i Int)"
	}
	cs := []string{fmt.Sprintf("(<= %s alloc0)", sel)}
	if !strings.HasSuffix(strings.Trim(name, "|"), "@0") {
		wm := e.watermark()
		if w, ok := e.compWM[name]; ok {
			wm = w
		}
		cs = append(cs, fmt.Sprintf("(and (> %s (+ alloc0 1000000)) (<= %s %s))", sel, sel, wm.S))
		for k := 1; k <= e.sites; k++ {
			if e.reified[k] {
				cs = append(cs, fmt.Sprintf("(= %s %s)", sel, e.siteRef(k).S))
			}
		}
	}
	body := cs[0]
	if len(cs) > 1 {
		body = "(or " + strings.Join(cs, " ") + ")"
	}
	e.assumeIfRelevant(T(SBool, "(forall (%s) (! %s :pattern (%s)))", vars, body, sel), []string{strings.Trim(name, "|")})
}

// havocVal creates an unconstrained well-formed value of type t.
func (e *Engine) havocVal(reach Term, prefix string, t types.Type) Val {
	ls := Layout(t)
	v := Val{T: t, L: make([]Term, len(ls))}
	for i, l := range ls {
		v.L[i] = e.fresh(prefix+"."+l.Path, l.Sort)
		e.strTerm(v.L[i])
	}
	e.assumeWF(reach, v)
	return v
}

func (e *Engine) assumeWF(reach Term, v Val) {
	ls := Layout(v.T)
	if len(ls) != len(v.L) {
		return
	}
	for i, l := range ls {
		x := v.L[i]
		switch l.Kind {
		case kInt:
			e.assume(reach, inRange(l.T, x))
		case kRef, kSlArr, kIfRef, kIfTag:
			e.assume(reach, Bin(SBool, ">=", x, IntLit(0)))
			if l.Kind == kRef {
				// typed heap: a non-nil pointer to T refers to an object of type T
				if pt, ok := l.T.Underlying().(*types.Pointer); ok {
					e.assume(reach, Or(Eq(x, IntLit(0)), Eq(T(SInt, "(rtype %s)", x), IntLit(int64(e.P.typeTag(pt.Elem()))))))
				}
			}
			if l.Kind != kIfTag && !e.noOutside {
				e.outsideRef(reach, x)
			}
		case kSlLen:
			// arr off len cap
			arr, off, ln, cp := v.L[i-2], v.L[i-1], v.L[i], v.L[i+1]
			e.assume(reach, And(Bin(SBool, "<=", IntLit(0), off), Bin(SBool, "<=", IntLit(0), ln), Bin(SBool, "<=", ln, cp),
				Bin(SBool, "<=", cp, T(SInt, "4611686018427387904")),
				Implies(Eq(arr, IntLit(0)), And(Eq(cp, IntLit(0)), Eq(off, IntLit(0))))))
		}
		if l.Kind == kIfRef {
			tag := v.L[i-1]
			e.assume(reach, Implies(Eq(tag, IntLit(0)), Eq(x, IntLit(0))))
			if e.P.isRepoInterface(l.T) {
				// closed world: only types of this program can implement an interface declared in the repository
				e.used["closed world: values of "+typeID(l.T)+" have one of the program's implementing types"] = true
				cases := []Term{Eq(tag, IntLit(0))}
				for _, dt := range e.P.implementers(l.T) {
					tt := IntLit(int64(e.P.typeTag(dt)))
					var payload types.Type = dt
					if pt, ok := dt.Underlying().(*types.Pointer); ok {
						payload = pt.Elem()
					}
					cases = append(cases, And(Eq(tag, tt), Or(Eq(x, IntLit(0)), Eq(T(SInt, "(rtype %s)", x), IntLit(int64(e.P.typeTag(payload)))))))
				}
				e.assume(reach, Or(cases...))
			}
		}
	}
}

// ---------------------------------------------------------------- type tags

func (p *Program) typeTag(t types.Type) int {
	p.tagMu.Lock()
	defer p.tagMu.Unlock()
	k := typeID(t)
	if n, ok := p.tags[k]; ok {
		return n
	}
	n := len(p.tags) + 1
	p.tags[k] = n
	p.tagTypes[n] = t
	return n
}
