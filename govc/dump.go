package main

import (
	"os"
	"strings"
)

func cmdDump(args []string) {
	p, err := LoadProgram(repoDir(), verifDir()+"/specs")
	if err != nil {
		panic(err)
	}
	for id, fn := range p.Funcs {
		for _, a := range args {
			if id == a || strings.HasSuffix(id, "."+a) {
				fn.WriteTo(os.Stdout)
			}
		}
	}
}
