package main

// Contract files: Gobra-style "//@" lines in comment-only Go files (build tag verif) inside
// /repo, and the same language in /verif/specs/*.spec for assumed contracts of dependencies.

import (
	"fmt"
	"os"
	"regexp"
	"strconv"
	"strings"
)

// ---------------------------------------------------------------- AST

type Expr interface{ exprString() string }

type EIdent struct{ Name string }
type EInt struct{ Val string }
type EStr struct{ Val string }
type EBool struct{ Val bool }
type ENil struct{}
type ESel struct {
	X    Expr
	Name string
}
type EIndex struct{ X, I Expr }
type ECall struct {
	Fun  Expr
	Args []Expr
}
type EUnary struct {
	Op string
	X  Expr
}
type EBinary struct {
	Op   string
	X, Y Expr
}
type EQuant struct {
	Forall   bool
	Vars     []QVar
	Triggers []Expr // optional: forall k int :: {t1, t2} body
	Body     Expr
}
type QVar struct{ Name, Type string }

func (e EIdent) exprString() string { return e.Name }
func (e EInt) exprString() string   { return e.Val }
func (e EStr) exprString() string   { return strconv.Quote(e.Val) }
func (e EBool) exprString() string  { return fmt.Sprint(e.Val) }
func (e ENil) exprString() string   { return "nil" }
func (e ESel) exprString() string   { return e.X.exprString() + "." + e.Name }
func (e EIndex) exprString() string { return e.X.exprString() + "[" + e.I.exprString() + "]" }
func (e ECall) exprString() string {
	var a []string
	for _, x := range e.Args {
		a = append(a, x.exprString())
	}
	return e.Fun.exprString() + "(" + strings.Join(a, ", ") + ")"
}
func (e EUnary) exprString() string { return e.Op + e.X.exprString() }
func (e EBinary) exprString() string {
	return "(" + e.X.exprString() + " " + e.Op + " " + e.Y.exprString() + ")"
}
func (e EQuant) exprString() string {
	q := "exists"
	if e.Forall {
		q = "forall"
	}
	var v []string
	for _, x := range e.Vars {
		v = append(v, x.Name+" "+x.Type)
	}
	return "(" + q + " " + strings.Join(v, ", ") + " :: " + e.Body.exprString() + ")"
}

// ---------------------------------------------------------------- lexer

type ctoken struct {
	kind string // ident, int, str, op, eof
	text string
}

func lexExpr(s string) ([]ctoken, error) {
	var toks []ctoken
	i := 0
	for i < len(s) {
		c := s[i]
		switch {
		case c == ' ' || c == '\t' || c == '\n':
			i++
		case c >= '0' && c <= '9':
			j := i
			for j < len(s) && (s[j] >= '0' && s[j] <= '9' || s[j] == 'x' || s[j] == '_' || s[j] >= 'a' && s[j] <= 'f' || s[j] >= 'A' && s[j] <= 'F') {
				j++
			}
			toks = append(toks, ctoken{"int", s[i:j]})
			i = j
		case c == '_' || c >= 'a' && c <= 'z' || c >= 'A' && c <= 'Z' || c == '$':
			j := i
			for j < len(s) && (s[j] == '_' || s[j] == '$' || s[j] == '#' || s[j] >= 'a' && s[j] <= 'z' || s[j] >= 'A' && s[j] <= 'Z' || s[j] >= '0' && s[j] <= '9') {
				j++
			}
			toks = append(toks, ctoken{"ident", s[i:j]})
			i = j
		case c == '"':
			j := i + 1
			for j < len(s) && s[j] != '"' {
				if s[j] == '\\' {
					j++
				}
				j++
			}
			if j >= len(s) {
				return nil, fmt.Errorf("unterminated string")
			}
			v, err := strconv.Unquote(s[i : j+1])
			if err != nil {
				return nil, err
			}
			toks = append(toks, ctoken{"str", v})
			i = j + 1
		default:
			ops := []string{"<==>", "==>", "::", "==", "!=", "<=", ">=", "&&", "||", "<<", ">>", "&^",
				"+", "-", "*", "/", "%", "<", ">", "!", "(", ")", "[", "]", ",", ".", "&", "|", "^", ":", "{", "}"}
			matched := false
			for _, op := range ops {
				if strings.HasPrefix(s[i:], op) {
					toks = append(toks, ctoken{"op", op})
					i += len(op)
					matched = true
					break
				}
			}
			if !matched {
				return nil, fmt.Errorf("unexpected character %q in %q", c, s)
			}
		}
	}
	toks = append(toks, ctoken{"eof", ""})
	return toks, nil
}

// ---------------------------------------------------------------- parser

type exprParser struct {
	toks []ctoken
	pos  int
}

func ParseExpr(s string) (Expr, error) {
	toks, err := lexExpr(s)
	if err != nil {
		return nil, err
	}
	p := &exprParser{toks: toks}
	e, err := p.parseIff()
	if err != nil {
		return nil, fmt.Errorf("%v in %q", err, s)
	}
	if p.peek().kind != "eof" {
		return nil, fmt.Errorf("trailing tokens at %q in %q", p.peek().text, s)
	}
	return e, nil
}

func (p *exprParser) peek() ctoken { return p.toks[p.pos] }
func (p *exprParser) next() ctoken { t := p.toks[p.pos]; p.pos++; return t }
func (p *exprParser) isOp(s string) bool {
	t := p.peek()
	return t.kind == "op" && t.text == s
}
func (p *exprParser) expectOp(s string) error {
	if !p.isOp(s) {
		return fmt.Errorf("expected %q, found %q", s, p.peek().text)
	}
	p.pos++
	return nil
}

func (p *exprParser) parseIff() (Expr, error) {
	x, err := p.parseImpl()
	if err != nil {
		return nil, err
	}
	for p.isOp("<==>") {
		p.pos++
		y, err := p.parseImpl()
		if err != nil {
			return nil, err
		}
		x = EBinary{"<==>", x, y}
	}
	return x, nil
}

func (p *exprParser) parseImpl() (Expr, error) {
	x, err := p.parseBin(0)
	if err != nil {
		return nil, err
	}
	if p.isOp("==>") {
		p.pos++
		y, err := p.parseImpl() // right assoc
		if err != nil {
			return nil, err
		}
		return EBinary{"==>", x, y}, nil
	}
	return x, nil
}

var binPrec = map[string]int{
	"||": 1, "&&": 2,
	"==": 3, "!=": 3, "<": 3, "<=": 3, ">": 3, ">=": 3,
	"+": 4, "-": 4, "|": 4, "^": 4,
	"*": 5, "/": 5, "%": 5, "<<": 5, ">>": 5, "&": 5, "&^": 5,
}

func (p *exprParser) parseBin(minPrec int) (Expr, error) {
	x, err := p.parseUnary()
	if err != nil {
		return nil, err
	}
	for {
		t := p.peek()
		if t.kind != "op" {
			return x, nil
		}
		prec, ok := binPrec[t.text]
		if !ok || prec <= minPrec {
			return x, nil
		}
		p.pos++
		y, err := p.parseBin(prec)
		if err != nil {
			return nil, err
		}
		x = EBinary{t.text, x, y}
	}
}

func (p *exprParser) parseUnary() (Expr, error) {
	t := p.peek()
	if t.kind == "op" && (t.text == "!" || t.text == "-" || t.text == "*" || t.text == "&") {
		p.pos++
		x, err := p.parseUnary()
		if err != nil {
			return nil, err
		}
		return EUnary{t.text, x}, nil
	}
	if t.kind == "ident" && (t.text == "forall" || t.text == "exists") {
		p.pos++
		var vars []QVar
		for {
			n := p.next()
			if n.kind != "ident" {
				return nil, fmt.Errorf("expected bound variable name")
			}
			ty := p.next()
			if ty.kind != "ident" {
				return nil, fmt.Errorf("expected bound variable type")
			}
			vars = append(vars, QVar{n.text, ty.text})
			if p.isOp(",") {
				p.pos++
				continue
			}
			break
		}
		if err := p.expectOp("::"); err != nil {
			return nil, err
		}
		var trig []Expr
		if p.isOp("{") {
			p.pos++
			for !p.isOp("}") {
				te, err := p.parseIff()
				if err != nil {
					return nil, err
				}
				trig = append(trig, te)
				if p.isOp(",") {
					p.pos++
				}
			}
			p.pos++
		}
		body, err := p.parseIff()
		if err != nil {
			return nil, err
		}
		return EQuant{t.text == "forall", vars, trig, body}, nil
	}
	return p.parsePostfix()
}

func (p *exprParser) parsePostfix() (Expr, error) {
	var x Expr
	t := p.next()
	switch t.kind {
	case "int":
		x = EInt{strings.ReplaceAll(t.text, "_", "")}
	case "str":
		x = EStr{t.text}
	case "ident":
		switch t.text {
		case "true":
			x = EBool{true}
		case "false":
			x = EBool{false}
		case "nil":
			x = ENil{}
		default:
			x = EIdent{t.text}
		}
	case "op":
		if t.text == "(" {
			e, err := p.parseIff()
			if err != nil {
				return nil, err
			}
			if err := p.expectOp(")"); err != nil {
				return nil, err
			}
			x = e
		} else {
			return nil, fmt.Errorf("unexpected %q", t.text)
		}
	default:
		return nil, fmt.Errorf("unexpected end of expression")
	}
	for {
		switch {
		case p.isOp("."):
			p.pos++
			n := p.next()
			if n.kind != "ident" {
				return nil, fmt.Errorf("expected field name after '.'")
			}
			x = ESel{x, n.text}
		case p.isOp("["):
			p.pos++
			i, err := p.parseIff()
			if err != nil {
				return nil, err
			}
			if err := p.expectOp("]"); err != nil {
				return nil, err
			}
			x = EIndex{x, i}
		case p.isOp("("):
			p.pos++
			var args []Expr
			for !p.isOp(")") {
				a, err := p.parseIff()
				if err != nil {
					return nil, err
				}
				args = append(args, a)
				if p.isOp(",") {
					p.pos++
				} else {
					break
				}
			}
			if err := p.expectOp(")"); err != nil {
				return nil, err
			}
			x = ECall{x, args}
		default:
			return x, nil
		}
	}
}

// ---------------------------------------------------------------- clauses

type Clause struct {
	Kind  string   // requires, ensures, invariant, decreases, assert
	Props []string // [C03,C19] tags; empty = all props of the function
	Label string
	Text  string
	E     Expr
	Src   string // file:line
}

type LoopContract struct {
	BodyEnsures []*Clause // checked at the end of every iteration and on every exit from the body
	IterEnsures []*Clause // checked at the end of every completed iteration (back edge) only
	Invariants []*Clause
	Decreases  *Clause
	Forever    bool // the loop is meant to run until the process/goroutine is stopped (select loop of a background task)
	Assigns    []string
}

type FuncContract struct {
	ID        string // short id, e.g. asn1parser.ReadLength
	Props     []string
	Requires  []*Clause
	Ensures   []*Clause
	Assigns   []string // heap components ("Type.field", "Type.*", "*")
	HasAssign bool
	Writes    []string // lock-guarded fields the function (with its callees) may write; distinct from assigns, which also
	HasWrites bool     // lists what a caller must forget because the callee takes locks
	Loops     map[int]*LoopContract
	Pure      bool
	Trusted   bool // assumed, body not verified
	TrustFrame bool // the frame (assigns) is trusted, postconditions are verified
	NoInline  bool
	Fresh     []int // result indexes that are fresh allocations
	Decreases *Clause
	AllocBound *Clause // allocations may also be as large as this expression (data the caller handed in)
	UnboundedAlloc bool // (specs) the function allocates memory proportional to its input (io.ReadAll, os.ReadFile, ...)
	Validator        bool // the function's purpose is to reject (ExpectTag ...): its failure is a legitimate cause for callers marked errors_propagated
	ErrorsPropagated bool // every non-nil error returned is the (possibly wrapped) failure of a call made on that path
	Constructor bool // runs in the single-threaded configuration phase (Provision): may initialise immutable fields
	NoGlobals bool   // the function must not read mutable package-level variables (state shared between instances)
	LastCallAtomic bool // (with LastCall) trusted: attempts of the parameter that fail leave the ghost state as it was
	LastCall  string // higher-order summary: the function's outcome is that of the last call of this func-typed parameter
	Notes     []string
	Src       string
	IsSpec    bool // from /verif/specs (dependency)
	Raw       []string
}

type SpecFunc struct {
	Pkg    string // package of the defining contract file (unqualified names in the body resolve there)
	Name   string
	Params []QVar
	Result string
	Body   Expr // nil => uninterpreted
	Src    string
}

type Axiom struct {
	Name string
	E    Expr
	Text string
	Src  string
	Lemma bool
}

type TypeContract struct {
	ID         string
	Invariants []*Clause
	Guarded    map[string]string // field -> lock
	Owned      map[string]*OwnedField // field -> the lock that protects the object the field refers to
	Immutable  map[string]bool
	Src        string
}

type GlobalInv struct {
	VarOnly bool // the invariant speaks about the variable's value only (not about map/slice contents)
	Pkg    string
	Global string
	Clause *Clause
}

// OwnedField: the object a field refers to is part of the representation protected by Lock: methods may be called
// on it only with the lock held (Readers: in any mode; every other method: in write mode).
type OwnedField struct {
	Lock    string
	Readers map[string]bool
}

// ForbidMethod: a structural assumption of the proofs: type Type of package Pkg has no method Method (e.g. no
// custom UnmarshalJSON on a configuration struct, so that the host's strict decoder sees every key).
type ForbidMethod struct {
	Pkg, Type, Method, Reason, Src string
	Props                          []string
}

// ForbidCall: no function under verification for the listed properties may call Callee.
type ForbidCall struct {
	Callee, Reason, Src string
	Props               []string
}

type Contracts struct {
	ForbidCalls []*ForbidCall
	Ghosts  map[string]Sort // ghost state components: name -> SMT sort
	Globals []*GlobalInv
	Funcs  map[string]*FuncContract
	Specs  map[string]*SpecFunc
	Axioms []*Axiom
	Types  map[string]*TypeContract
	Errors []string
	Files  []string
	Forbids []*ForbidMethod
	Dead   map[string]bool // "<funcid> returnK": returns declared unreachable (proved instead of covered)
}

func NewContracts() *Contracts {
	return &Contracts{Ghosts: map[string]Sort{}, Funcs: map[string]*FuncContract{}, Specs: map[string]*SpecFunc{}, Types: map[string]*TypeContract{}}
}

var clauseHead = regexp.MustCompile(`^(requires|ensures|trusted_ensures|assert)(\[[A-Za-z0-9, ]*\])?\s+(.*)$`)
var labelRe = regexp.MustCompile(`^([A-Za-z_][A-Za-z0-9_.\-]*):\s+(.*)$`)
var specFuncRe = regexp.MustCompile(`^spec\s+func\s+([A-Za-z_][A-Za-z0-9_]*)\s*\(([^)]*)\)\s*([A-Za-z_][A-Za-z0-9_]*)\s*(=\s*(.*)|uninterpreted)\s*$`)

// ParseContractFile parses one file. pkgName qualifies unqualified function ids (empty for spec files).
func (cs *Contracts) ParseContractFile(path string, pkgName string, isSpec bool) {
	data, err := os.ReadFile(path)
	if err != nil {
		cs.Errors = append(cs.Errors, err.Error())
		return
	}
	cs.Files = append(cs.Files, path)
	// gather logical lines: join continuation lines
	type lline struct {
		text string
		line int
	}
	var lines []lline
	heads := []string{"func ", "type ", "spec ", "dead ", "forbid_call", "forbid_tags", "forbid_method", "axiom ", "lemma ", "global ", "props ", "arith ", "requires", "ensures", "trusted_ensures", "assigns", "writes", "loop ", "pure", "trusted", "trustframe", "noglobals", "validator", "errors_propagated", "constructor", "unbounded_alloc", "noinline", "fresh ", "note ", "assert", "invariant ", "invariant[", "guarded_by ", "owns ", "immutable", "decreases ", "ghost ", "lastcall ", "allocbound "}
	for i, raw := range strings.Split(string(data), "\n") {
		s := strings.TrimSpace(raw)
		if !strings.HasPrefix(s, "//@") {
			continue
		}
		s = strings.TrimSpace(s[3:])
		if s == "" {
			continue
		}
		isHead := false
		for _, h := range heads {
			if strings.HasPrefix(s, h) || s == strings.TrimSpace(h) {
				isHead = true
				break
			}
		}
		if !isHead && len(lines) > 0 {
			lines[len(lines)-1].text += " " + s
			continue
		}
		lines = append(lines, lline{s, i + 1})
	}
	var curF *FuncContract
	var curT *TypeContract
	qualify := func(id string) string {
		if pkgName != "" && !strings.Contains(strings.SplitN(id, ".", 2)[0], "/") {
			// "Func" or "Type.Method" -> "pkg.Func" / "pkg.Type.Method"; already-qualified ids start with "pkg."
			if strings.HasPrefix(id, pkgName+".") {
				return id
			}
			return pkgName + "." + id
		}
		return id
	}
	mkClause := func(kind, tag, rest, src string) *Clause {
		c := &Clause{Kind: kind, Src: src}
		if tag != "" {
			for _, p := range strings.Split(strings.Trim(tag, "[]"), ",") {
				if p = strings.TrimSpace(p); p != "" {
					c.Props = append(c.Props, p)
				}
			}
		}
		if m := labelRe.FindStringSubmatch(rest); m != nil && !strings.HasPrefix(m[2], ":") {
			c.Label = m[1]
			rest = m[2]
		}
		c.Text = rest
		e, err := ParseExpr(rest)
		if err != nil {
			cs.Errors = append(cs.Errors, fmt.Sprintf("%s: %v", src, err))
			return nil
		}
		c.E = e
		return c
	}
	for _, l := range lines {
		src := fmt.Sprintf("%s:%d", path, l.line)
		s := l.text
		switch {
		case strings.HasPrefix(s, "func "):
			id := qualify(strings.TrimSpace(s[5:]))
			curF = &FuncContract{ID: id, Loops: map[int]*LoopContract{}, Src: src, IsSpec: isSpec}
			curT = nil
			if old, ok := cs.Funcs[id]; ok {
				cs.Errors = append(cs.Errors, fmt.Sprintf("%s: duplicate contract for %s (first at %s)", src, id, old.Src))
			}
			cs.Funcs[id] = curF
		case strings.HasPrefix(s, "type "):
			id := qualify(strings.TrimSpace(s[5:]))
			curT = &TypeContract{ID: id, Guarded: map[string]string{}, Immutable: map[string]bool{}, Src: src}
			curF = nil
			cs.Types[id] = curT
		case strings.HasPrefix(s, "spec "):
			m := specFuncRe.FindStringSubmatch(s)
			if m == nil {
				cs.Errors = append(cs.Errors, src+": bad spec func: "+s)
				continue
			}
			sf := &SpecFunc{Name: m[1], Result: m[3], Src: src, Pkg: pkgName}
			if old, dup := cs.Specs[sf.Name]; dup {
				cs.Errors = append(cs.Errors, fmt.Sprintf("%s: spec function %s already defined at %s", src, sf.Name, old.Src))
			}
			for _, p := range strings.Split(m[2], ",") {
				p = strings.TrimSpace(p)
				if p == "" {
					continue
				}
				f := strings.Fields(p)
				if len(f) != 2 {
					cs.Errors = append(cs.Errors, src+": bad spec param: "+p)
					continue
				}
				sf.Params = append(sf.Params, QVar{f[0], f[1]})
			}
			if m[4] != "uninterpreted" {
				e, err := ParseExpr(m[5])
				if err != nil {
					cs.Errors = append(cs.Errors, fmt.Sprintf("%s: %v", src, err))
					continue
				}
				sf.Body = e
			}
			cs.Specs[sf.Name] = sf
		case strings.HasPrefix(s, "forbid_call"):
			// forbid_call[Cxx] <callee id>: <reason>
			rest := strings.TrimSpace(s[len("forbid_call"):])
			var props []string
			if strings.HasPrefix(rest, "[") {
				i := strings.Index(rest, "]")
				for _, p := range strings.Split(rest[1:i], ",") {
					props = append(props, strings.TrimSpace(p))
				}
				rest = strings.TrimSpace(rest[i+1:])
			}
			reason := ""
			if i := strings.Index(rest, ":"); i >= 0 {
				reason, rest = strings.TrimSpace(rest[i+1:]), strings.TrimSpace(rest[:i])
			}
			if rest == "" || strings.ContainsAny(rest, " \t") {
				cs.Errors = append(cs.Errors, src+": bad forbid_call clause")
				continue
			}
			cs.ForbidCalls = append(cs.ForbidCalls, &ForbidCall{Callee: rest, Reason: reason, Src: src, Props: props})
			curF, curT = nil, nil
		case strings.HasPrefix(s, "forbid_method"), strings.HasPrefix(s, "forbid_tags"):
			// forbid_method[Cxx] <Type> <Method>: <reason>
			// forbid_tags[Cxx] <Type>: <reason>   (no field but the last of the struct type carries a struct tag: its wire form is
			// the default one that the assumed codec contracts speak about)
			tagsForm := strings.HasPrefix(s, "forbid_tags")
			rest := strings.TrimSpace(s[len("forbid_method"):])
			if tagsForm {
				rest = strings.TrimSpace(s[len("forbid_tags"):])
			}
			var props []string
			if strings.HasPrefix(rest, "[") {
				i := strings.Index(rest, "]")
				for _, p := range strings.Split(rest[1:i], ",") {
					props = append(props, strings.TrimSpace(p))
				}
				rest = strings.TrimSpace(rest[i+1:])
			}
			reason := ""
			if i := strings.Index(rest, ":"); i >= 0 {
				reason, rest = strings.TrimSpace(rest[i+1:]), strings.TrimSpace(rest[:i])
			}
			f := strings.Fields(rest)
			if tagsForm && len(f) == 1 {
				f = append(f, "")
			}
			if len(f) != 2 {
				cs.Errors = append(cs.Errors, src+": bad forbid_method clause")
				continue
			}
			cs.Forbids = append(cs.Forbids, &ForbidMethod{Pkg: pkgName, Type: f[0], Method: f[1], Reason: reason, Src: src, Props: props})
			curF, curT = nil, nil
		case strings.HasPrefix(s, "dead "):
			// dead <func> returnK : the K-th return of func is unreachable; proved, and exempt from the cover query
			f := strings.Fields(s)
			if len(f) != 3 {
				cs.Errors = append(cs.Errors, src+": bad dead clause")
				continue
			}
			id := f[1]
			if pkgName != "" {
				id = pkgName + "." + id
			}
			if cs.Dead == nil {
				cs.Dead = map[string]bool{}
			}
			cs.Dead[id+" "+f[2]] = true
			curF, curT = nil, nil
		case strings.HasPrefix(s, "global "):
			// global <name> invariant[Cxx] label: expr
			f := strings.Fields(s)
			varOnly := false
			if len(f) >= 4 && strings.HasPrefix(f[2], "varinvariant") {
				varOnly = true
			} else if len(f) < 4 || !strings.HasPrefix(f[2], "invariant") {
				cs.Errors = append(cs.Errors, src+": bad global clause")
				continue
			}
			tag := ""
			if i := strings.Index(f[2], "["); i > 0 {
				tag = f[2][i:]
			}
			rest := strings.TrimSpace(strings.SplitN(s, f[2], 2)[1])
			if c := mkClause("globalinv", tag, rest, src); c != nil {
				cs.Globals = append(cs.Globals, &GlobalInv{Pkg: pkgName, Global: f[1], Clause: c, VarOnly: varOnly})
			}
			curF, curT = nil, nil
		case strings.HasPrefix(s, "axiom ") || strings.HasPrefix(s, "lemma "):
			rest := strings.TrimSpace(s[6:])
			name := ""
			if m := labelRe.FindStringSubmatch(rest); m != nil {
				name, rest = m[1], m[2]
			}
			e, err := ParseExpr(rest)
			if err != nil {
				cs.Errors = append(cs.Errors, fmt.Sprintf("%s: %v", src, err))
				continue
			}
			cs.Axioms = append(cs.Axioms, &Axiom{Name: name, E: e, Text: rest, Src: src, Lemma: strings.HasPrefix(s, "lemma ")})
		case curT != nil && (strings.HasPrefix(s, "invariant ") || strings.HasPrefix(s, "invariant[")):
			rest := strings.TrimSpace(s[9:])
			tag := ""
			if strings.HasPrefix(rest, "[") {
				i := strings.Index(rest, "]")
				tag, rest = rest[:i+1], strings.TrimSpace(rest[i+1:])
			}
			if c := mkClause("typeinv", tag, rest, src); c != nil {
				curT.Invariants = append(curT.Invariants, c)
			}
		case curT != nil && strings.HasPrefix(s, "guarded_by "):
			parts := strings.SplitN(strings.TrimSpace(s[11:]), ":", 2)
			if len(parts) == 2 {
				for _, f := range strings.Split(parts[1], ",") {
					curT.Guarded[strings.TrimSpace(f)] = strings.TrimSpace(parts[0])
				}
			}
		case curT != nil && strings.HasPrefix(s, "owns "):
			// owns <lock>: <field> readers M1 M2 ...
			parts := strings.SplitN(strings.TrimSpace(s[5:]), ":", 2)
			if len(parts) != 2 {
				cs.Errors = append(cs.Errors, src+": bad owns clause")
				continue
			}
			f := strings.Fields(parts[1])
			if len(f) == 0 {
				cs.Errors = append(cs.Errors, src+": bad owns clause")
				continue
			}
			of := &OwnedField{Lock: strings.TrimSpace(parts[0]), Readers: map[string]bool{}}
			for _, r := range f[1:] {
				if r != "readers" {
					of.Readers[strings.Trim(r, ",")] = true
				}
			}
			if curT.Owned == nil {
				curT.Owned = map[string]*OwnedField{}
			}
			curT.Owned[f[0]] = of
		case curT != nil && strings.HasPrefix(s, "immutable"):
			rest := strings.TrimPrefix(strings.TrimSpace(s[9:]), ":")
			for _, f := range strings.Split(rest, ",") {
				if f = strings.TrimSpace(f); f != "" {
					curT.Immutable[f] = true
				}
			}
		case curF == nil && !strings.HasPrefix(s, "ghost "):
			cs.Errors = append(cs.Errors, src+": clause outside func/type block: "+s)
		case strings.HasPrefix(s, "props "):
			curF.Props = append(curF.Props, strings.Fields(s[6:])...)
		case strings.HasPrefix(s, "arith "):
			// only "int" is implemented; recorded for evidence
			curF.Notes = append(curF.Notes, "arith "+strings.TrimSpace(s[6:]))
		case s == "pure":
			curF.Pure = true
		case s == "trusted":
			curF.Trusted = true
		case s == "validator":
			curF.Validator = true
		case s == "errors_propagated":
			curF.ErrorsPropagated = true
		case s == "constructor":
			curF.Constructor = true
		case s == "unbounded_alloc":
			curF.UnboundedAlloc = true
		case s == "noglobals":
			curF.NoGlobals = true
		case s == "trustframe":
			curF.TrustFrame = true
		case s == "noinline":
			curF.NoInline = true
		case strings.HasPrefix(s, "fresh "):
			for _, f := range strings.Fields(s[6:]) {
				n, err := strconv.Atoi(strings.TrimPrefix(f, "r"))
				if err == nil {
					curF.Fresh = append(curF.Fresh, n)
				}
			}
		case strings.HasPrefix(s, "note "):
			curF.Notes = append(curF.Notes, strings.TrimSpace(s[5:]))
		case strings.HasPrefix(s, "writes"):
			curF.HasWrites = true
			for _, a := range strings.Split(strings.TrimSpace(s[6:]), ",") {
				if a = strings.TrimSpace(a); a != "" && a != "nothing" {
					curF.Writes = append(curF.Writes, a)
				}
			}
		case strings.HasPrefix(s, "assigns"):
			curF.HasAssign = true
			for _, a := range strings.Split(strings.TrimSpace(s[7:]), ",") {
				if a = strings.TrimSpace(a); a != "" {
					curF.Assigns = append(curF.Assigns, a)
				}
			}
		case strings.HasPrefix(s, "allocbound "):
			curF.AllocBound = mkClause("allocbound", "", strings.TrimSpace(s[11:]), src)
		case strings.HasPrefix(s, "lastcall "):
			curF.LastCall = strings.TrimSpace(s[9:])
			if f := strings.Fields(curF.LastCall); len(f) == 2 && f[1] == "failures_are_atomic" {
				curF.LastCall, curF.LastCallAtomic = f[0], true
			}
		case strings.HasPrefix(s, "ghost "):
			// ghost <name> <smt sort>
			f := strings.SplitN(strings.TrimSpace(s[6:]), " ", 2)
			if len(f) == 2 {
				cs.Ghosts[f[0]] = Sort(strings.TrimSpace(f[1]))
			}
		case strings.HasPrefix(s, "decreases "):
			curF.Decreases = mkClause("decreases", "", strings.TrimSpace(s[10:]), src)
		case strings.HasPrefix(s, "loop "):
			f := strings.Fields(s)
			if len(f) < 3 {
				cs.Errors = append(cs.Errors, src+": bad loop clause")
				continue
			}
			n, err := strconv.Atoi(f[1])
			if err != nil {
				cs.Errors = append(cs.Errors, src+": bad loop ordinal")
				continue
			}
			lc := curF.Loops[n]
			if lc == nil {
				lc = &LoopContract{}
				curF.Loops[n] = lc
			}
			rest := strings.TrimSpace(strings.SplitN(s, f[2], 2)[1])
			kind := f[2]
			tag := ""
			if i := strings.Index(kind, "["); i > 0 {
				tag = kind[i:]
				kind = kind[:i]
			}
			switch kind {
			case "invariant":
				if strings.HasPrefix(rest, "[") {
					i := strings.Index(rest, "]")
					tag, rest = rest[:i+1], strings.TrimSpace(rest[i+1:])
				}
				if c := mkClause("invariant", tag, rest, src); c != nil {
					lc.Invariants = append(lc.Invariants, c)
				}
			case "iter_ensures":
				if c := mkClause("iter_ensures", tag, rest, src); c != nil {
					lc.IterEnsures = append(lc.IterEnsures, c)
				}
			case "body_ensures":
				if c := mkClause("body_ensures", tag, rest, src); c != nil {
					lc.BodyEnsures = append(lc.BodyEnsures, c)
				}
			case "forever":
				lc.Forever = true
			case "decreases":
				lc.Decreases = mkClause("decreases", "", rest, src)
			case "assigns":
				for _, a := range strings.Split(rest, ",") {
					if a = strings.TrimSpace(a); a != "" {
						lc.Assigns = append(lc.Assigns, a)
					}
				}
			default:
				cs.Errors = append(cs.Errors, src+": unknown loop clause "+f[2])
			}
		default:
			m := clauseHead.FindStringSubmatch(s)
			if m == nil {
				cs.Errors = append(cs.Errors, src+": unknown clause: "+s)
				continue
			}
			c := mkClause(m[1], m[2], m[3], src)
			if c == nil {
				continue
			}
			switch m[1] {
			case "requires":
				curF.Requires = append(curF.Requires, c)
			case "ensures":
				curF.Ensures = append(curF.Ensures, c)
			case "trusted_ensures":
				c.Kind = "trusted_ensures"
				curF.Ensures = append(curF.Ensures, c)
			}
		}
		if curF != nil {
			curF.Raw = append(curF.Raw, s)
		}
	}
}
