package main

import (
	"fmt"
	"go/token"
	"go/types"
	"os"
	"path/filepath"
	"runtime/debug"
	"sort"
	"strings"
	"sync"
	"time"

	"golang.org/x/tools/go/ssa"
)

type FuncResult struct {
	ID       string
	File     string
	Contract *FuncContract
	Inherit  []string
	Obls     []*Obligation
	Notes    []string
	CErrors  []string
	Used     []string
	Engine   *Engine
	GoTargets []goTarget
	Panic    string
}

// extra Engine fields that belong to the executor
type engineExtra struct{}

func (p *Program) VerifyFunction(id string) (res *FuncResult) {
	fn := p.Funcs[id]
	res = &FuncResult{ID: id, File: p.FuncFile[id]}
	if fn == nil {
		res.CErrors = append(res.CErrors, "no such function "+id)
		return
	}
	fc := p.Contracts.Funcs[id]
	res.Contract = fc
	e := NewEngine(p, fn, fc)
	res.Engine = e
	defer func() {
		if r := recover(); r != nil {
			res.Panic = fmt.Sprint(r)
			if os.Getenv("GOVC_DEBUG") != "" {
				fmt.Fprintf(os.Stderr, "%s\n", debug.Stack())
			}
			res.Obls = e.obls
			res.finish(e)
		}
	}()
	if fc != nil && fc.Trusted {
		res.Notes = append(res.Notes, "contract of "+id+" is trusted: body not verified")
		return
	}
	e.declare("alloc0", SInt)
	e.assumes = append(e.assumes, T(SBool, "(>= alloc0 1)"))
	st := e.newState()
	fr := &Frame{fn: fn, vals: map[ssa.Value]Val{}, top: true}
	bind := map[string]Val{}
	for i, prm := range fn.Params {
		v := e.havocVal(True, "in."+prm.Name(), prm.Type())
		for _, l := range v.L {
			e.assume(True, Implies(True, True))
			_ = l
		}
		fr.params = append(fr.params, v)
		bind[prm.Name()] = v
		bind[fmt.Sprintf("$%d", i)] = v
		e.paramOrd = append(e.paramOrd, prm.Name())
		for _, l := range v.L {
			e.watch = append(e.watch, l.S)
		}
	}
	if len(fn.Params) > 0 && fn.Signature.Recv() != nil {
		bind["self"] = fr.params[0]
	}
	for i, fv := range fn.FreeVars {
		// closure verified on its own: captured variables are arbitrary heap cells
		v := e.havocVal(True, "fv."+fv.Name(), fv.Type())
		if _, isPtr := fv.Type().Underlying().(*types.Pointer); isPtr {
			e.assume(True, Not(Eq(v.L[0], IntLit(0)))) // captured variables are addresses of live variables
		}
		fr.freevars = append(fr.freevars, v)
		_ = i
		if pt, isPtr := fv.Type().Underlying().(*types.Pointer); isPtr {
			// in the closure's own contract a captured variable is named like the variable and denotes its value at entry
			bind[fv.Name()] = e.load(st, &Addr{Kind: aHeap, Ref: v.L[0], Root: pt.Elem(), T: pt.Elem()})
		}
	}
	// references in the initial state predate every local allocation
	for _, v := range fr.params {
		for i, l := range Layout(v.T) {
			if l.Kind == kRef || l.Kind == kSlArr || l.Kind == kIfRef {
				e.assume(True, Bin(SBool, "<=", v.L[i], Term{"alloc0", SInt}))
			}
		}
	}
	// inherited interface contracts
	var inherited []*FuncContract
	var inheritBind []map[string]Val
	for _, iid := range p.ifaceOf(fn) {
		if ic, ok := p.Contracts.Funcs[iid]; ok {
			inherited = append(inherited, ic)
			res.Inherit = append(res.Inherit, iid)
			b := map[string]Val{}
			for k, v := range bind {
				b[k] = v
			}
			// "self" of an interface contract is the receiver seen as a value of the interface type
			if im := p.ifaceMethod(iid); im != nil && len(fr.params) > 0 {
				if it := p.ifaceType(iid); it != nil {
					b["self"] = e.makeInterface(st, True, fr.params[0], it)
				}
			}
			// positional mapping of interface parameter names
			if im := p.ifaceMethod(iid); im != nil {
				sig := im.Type().(*types.Signature)
				for i := 0; i < sig.Params().Len() && i+1 < len(fr.params); i++ {
					if n := sig.Params().At(i).Name(); n != "" {
						b[n] = fr.params[i+1]
					}
				}
			}
			inheritBind = append(inheritBind, b)
		}
	}
	e.params = bind
	e.old = st.clone()
	// axioms
	for _, ax := range p.Contracts.Axioms {
		if ax.Lemma {
			continue
		}
		env := e.newEnv(nil, st)
		env.pkg = ""
		c, err := env.evalBool(ax.E)
		if err != nil {
			continue // axiom mentions things this function never sees
		}
		syms := symbolsOf(c)
		var fs []string
		for _, sy := range syms {
			if !strings.HasPrefix(sy, "G.") {
				fs = append(fs, sy)
			}
		}
		e.assumeIfRelevant(c, fs)
		e.used["axiom: "+ax.Name+" ("+ax.Src+")"] = true
	}
	// invariants of immutable package-level variables (established by the package initialiser)
	isInit := fn.Name() == "init" && fn.Synthetic != ""
	if isInit {
		// the package initialiser runs exactly once, with its guard still false
		st.setComp("G."+fn.Pkg.Pkg.Name()+".init$guard.", False)
	}
	if !isInit {
		for _, gi := range p.Contracts.Globals {
			env := e.newEnv(nil, st)
			env.pkg = gi.Pkg
			c, err := env.evalBool(gi.Clause.E)
			if err != nil {
				continue
			}
			e.assumeIfRelevant(c, []string{"G." + gi.Pkg + "." + gi.Global + "."})
			e.used["global invariant of "+gi.Pkg+"."+gi.Global+" (proved at "+gi.Pkg+".init, variable never written elsewhere)"] = true
		}
	}
	// preconditions
	assumePre := func(c *FuncContract, b map[string]Val) {
		for _, rq := range c.Requires {
			env := e.newEnv(nil, st)
			env.bind = b
			env.pkg = pkgOfID(c.ID)
			t, err := env.evalBool(rq.E)
			if err != nil {
				e.contractError(rq, err)
				continue
			}
			e.assume(True, t)
		}
	}
	for i, ic := range inherited {
		assumePre(ic, inheritBind[i])
	}
	if fc != nil && len(inherited) > 0 {
		// behavioural subtyping: callers through the interface only establish the interface's precondition
		for i, rq := range fc.Requires {
			env := e.newEnv(nil, st)
			env.bind = bind
			t, err := env.evalBool(rq.E)
			if err != nil {
				continue
			}
			lbl := rq.Label
			if lbl == "" {
				lbl = fmt.Sprint(i + 1)
			}
			e.curPos = fn.Pos()
			o := e.oblige("refine.pre", "refine.pre."+lbl, "own precondition must follow from the interface contract: "+rq.Text, True, t, rq)
			if o != nil {
				o.Props = rq.Props
			}
		}
	}
	if fc != nil {
		assumePre(fc, bind)
	}
	e.old = st.clone()
	if fc != nil && fc.Decreases != nil {
		env := e.newEnv(nil, st)
		env.bind = bind
		d, err := env.evalTerm(fc.Decreases.E)
		if err != nil {
			e.contractError(fc.Decreases, err)
		} else {
			e.decEntry = e.define("dec.entry", d)
		}
	}
	if fc != nil && fc.AllocBound != nil {
		env := e.newEnv(nil, st)
		env.bind = bind
		if t, err := env.evalTerm(fc.AllocBound.E); err == nil {
			e.allocExtra = t
		} else {
			e.contractError(fc.AllocBound, err)
		}
	}
	// vacuity guard: the preconditions together must be satisfiable
	cover := &Obligation{ID: id + "#cover.pre", Func: id, Kind: "cover", AssumeIdx: -1, Desc: "preconditions are satisfiable", Reach: True, Cond: True,
		NAssume: len(e.assumes), Expect: "sat"}
	e.obls = append(e.obls, cover)

	exits := e.runBody(fr, st, True)
	// order exits by source position
	sort.SliceStable(exits, func(i, j int) bool {
		pi, pj := exits[i].instr.Pos(), exits[j].instr.Pos()
		if pi != pj {
			if !pi.IsValid() {
				return false
			}
			if !pj.IsValid() {
				return true
			}
			return pi < pj
		}
		return exits[i].instr.Block().Index < exits[j].instr.Block().Index
	})
	checkPost := func(c *FuncContract, b map[string]Val, k int, x exitInfo, prefix string) {
		post := map[string]Val{}
		for n, v := range b {
			post[n] = v
		}
		for i, r := range x.results {
			post[fmt.Sprintf("r%d", i)] = r
		}
		if len(x.results) >= 1 {
			post["ret"] = x.results[0]
		}
		rs := fn.Signature.Results()
		for i := 0; i < rs.Len(); i++ {
			if n := rs.At(i).Name(); n != "" && n != "_" {
				post[n] = x.results[i]
			}
		}
		if len(x.results) > 0 {
			last := x.results[len(x.results)-1]
			if isErrorType(last.T) {
				if _, has := post["err"]; !has || rs.At(rs.Len()-1).Name() == "" {
					post["err"] = last
				}
			}
		}
		if p := x.instr.Pos(); p.IsValid() {
			e.curPos = p
		}
		for i, en := range c.Ensures {
			if en.Kind == "trusted_ensures" {
				continue // assumed at call sites, not checked against the body (listed as assumption)
			}
			env := e.newEnv(nil, x.st)
			env.bind = post
			env.old = e.old
			env.oldBind = b
			env.pkg = pkgOfID(c.ID)
			t, err := env.evalBool(en.E)
			if err != nil {
				e.contractError(en, err)
				continue
			}
			lbl := en.Label
			if lbl == "" {
				lbl = fmt.Sprint(i + 1)
			}
			o := e.oblige("post", fmt.Sprintf("%spost.%s@return%d", prefix, lbl, k), en.Text, x.reach, t, en)
			if o != nil {
				o.Props = en.Props
			}
		}
	}
	if isInit {
		pkgName := fn.Pkg.Pkg.Name()
		for _, fm := range p.Contracts.Forbids {
			if fm.Pkg != pkgName {
				continue
			}
			exists := false
			if tn, ok := fn.Pkg.Pkg.Scope().Lookup(fm.Type).(*types.TypeName); ok && fm.Method == "" {
				tagged := ""
				if stt, ok := tn.Type().Underlying().(*types.Struct); ok {
					for i := 0; i < stt.NumFields(); i++ {
						if stt.Tag(i) != "" && i != stt.NumFields()-1 {
							tagged += " " + stt.Field(i).Name() + " `" + stt.Tag(i) + "`"
						}
					}
				}
				e.curPos = tn.Pos()
				o := e.oblige("structure", "structure.no_tags."+fm.Type, "no field of type "+fm.Type+" other than the last one carries a struct tag ("+fm.Reason+")"+tagged, True, BoolLit(tagged == ""), nil)
				if o != nil {
					o.Props = fm.Props
				}
				continue
			} else if ok {
				for _, t := range []types.Type{tn.Type(), types.NewPointer(tn.Type())} {
					ms := types.NewMethodSet(t)
					for i := 0; i < ms.Len(); i++ {
						if ms.At(i).Obj().Name() == fm.Method {
							exists = true
						}
					}
				}
			} else {
				e.cerrors = append(e.cerrors, fm.Src+": unknown type "+fm.Type)
			}
			e.curPos = fn.Pos()
			o := e.oblige("structure", "structure.no_method."+fm.Type+"."+fm.Method, "type "+fm.Type+" must not have a method "+fm.Method+": "+fm.Reason, True, BoolLit(!exists), nil)
			if o != nil {
				o.Props = fm.Props
			}
		}
		for _, gi := range p.Contracts.Globals {
			if gi.Pkg != pkgName {
				continue
			}
			for k, x := range exits {
				env := e.newEnv(nil, x.st)
				env.pkg = gi.Pkg
				c, err := env.evalBool(gi.Clause.E)
				if err != nil {
					e.contractError(gi.Clause, err)
					continue
				}
				lbl := gi.Clause.Label
				if lbl == "" {
					lbl = gi.Global
				}
				o := e.oblige("globalinv", fmt.Sprintf("globalinv.%s@return%d", lbl, k+1), gi.Clause.Text, x.reach, c, gi.Clause)
				if o != nil {
					o.Props = gi.Clause.Props
				}
			}
			ws := p.globalWriters(gi.Pkg, gi.Global)
			if gi.VarOnly {
				ws = p.globalVarWriters(gi.Pkg, gi.Global)
			}
			o := e.oblige("globalinv", "globalinv.immutable."+gi.Global, "package variable "+gi.Global+" is written only by the package initialiser (writers: "+strings.Join(ws, ", ")+")", True, BoolLit(len(ws) == 0), gi.Clause)
			if o != nil {
				o.Props = gi.Clause.Props
			}
		}
	}
	// a mutex locked by this function is released on every path to a return (no contract here keeps a lock across
	// a return; a leaked lock blocks every later handshake or refresh)
	if e.lockChecks && !(fc != nil && hasNote(fc, "returns_holding_lock")) {
		for k, x := range exits {
			var aks []string
			for a := range x.st.acquired {
				aks = append(aks, a)
			}
			sort.Strings(aks)
			for _, a := range aks {
				m := x.st.acquired[a]
				if p := x.instr.Pos(); p.IsValid() {
					e.curPos = p
				}
				when := x.st.acqWhen[a]
				if when.S == "" {
					when = True
				}
				e.oblige("lock.release", fmt.Sprintf("lock.leak@return%d", k+1), "a mutex locked by this function is still held when it returns", And(x.reach, when), Eq(Select(e.heldArr(x.st), m, SInt), IntLit(0)), nil)
			}
		}
	}
	// vacuity guard: every return that the symbolic execution reaches must be reachable in the logic too
	for k, x := range exits {
		if p.Contracts.Dead[fmt.Sprintf("%s return%d", id, k+1)] {
			// declared dead code: instead of a cover query, prove the return is unreachable
			e.oblige("dead", fmt.Sprintf("dead.return%d", k+1), "this return is declared unreachable (dead code) in the contract", x.reach, False, nil)
			continue
		}
		c := &Obligation{ID: fmt.Sprintf("%s#cover.return%d", id, k+1), Func: id, Kind: "cover", AssumeIdx: -1, Desc: "return is reachable (assumptions along the path are consistent)",
			Reach: x.reach, Cond: True, NAssume: len(e.assumes), Expect: "sat", Pos: e.posString(x.instr.Pos())}
		e.obls = append(e.obls, c)
	}
	if fc != nil && fc.ErrorsPropagated {
		// the function adds no rejection of its own: a returned error stems from a failed call on the same path
		// (error constructors do not count, wrapping a callee's error does)
		var lbls []string
		for l := range e.labels {
			lbls = append(lbls, l)
		}
		sort.Strings(lbls)
		for k, x := range exits {
			if len(x.results) == 0 {
				continue
			}
			last := x.results[len(x.results)-1]
			if !isErrorType(last.T) || len(last.L) != 2 {
				continue
			}
			cause := False
			for _, l := range lbls {
				cl := e.labels[l]
				if cl == nil || len(cl.Results) == 0 || strings.HasPrefix(l, "New#") || strings.HasPrefix(l, "Errorf#") || strings.Contains(l, ".New#") || strings.Contains(l, ".Errorf#") {
					continue
				}
				// legitimate causes: library and interface calls, and repo functions that are themselves marked
				// errors_propagated or validator; an (inlined) helper without contract is not one
				if strings.HasPrefix(cl.Callee, "inlined:") {
					continue
				}
				if _, isRepo := p.Funcs[cl.Callee]; isRepo {
					cc := p.lookupContract(cl.Callee)
					if cc == nil || !(cc.ErrorsPropagated || cc.Validator) {
						continue
					}
				}
				lr := cl.Results[len(cl.Results)-1]
				if !isErrorType(lr.T) || len(lr.L) != 2 {
					continue
				}
				cause = Or(cause, And(cl.Reach, Not(Eq(lr.L[0], IntLit(0)))))
			}
			if p := x.instr.Pos(); p.IsValid() {
				e.curPos = p
			}
			e.oblige("post", fmt.Sprintf("post.errors_propagated@return%d", k+1), "a non-nil error is returned although no call on this path failed (the contract says this function rejects nothing on its own)", x.reach, Or(Eq(last.L[0], IntLit(0)), cause), nil)
		}
	}
	for k, x := range exits {
		if fc != nil {
			checkPost(fc, bind, k+1, x, "")
		}
		for i, ic := range inherited {
			short := ic.ID[strings.Index(ic.ID, ".")+1:]
			checkPost(ic, inheritBind[i], k+1, x, "refine."+short+".")
		}
	}
	// frame: objects that existed at entry are unchanged outside the assigns clause (semantic, per exit)
	if fc != nil && fc.TrustFrame {
		e.used["frame of "+fc.ID+" trusted (contract says trustframe)"] = true
	}
	if fc != nil && (fc.HasAssign || fc.Pure) && !fc.TrustFrame {
		for k, x := range exits {
			e.checkFrameAt(fn, fc, bind, k+1, x)
		}
		// lock-guarded fields are outside the semantic frame check (other goroutines may change them while the lock
		// is not held), so the writes of this function itself are checked against its assigns clause by name
		allowed := e.P.expandAssigns(fc)
		if fc.HasWrites {
			allowed = e.P.expandAssigns(&FuncContract{ID: fc.ID, Assigns: fc.Writes})
		}
		var gw []string
		for c := range e.guardedWrites {
			gw = append(gw, c)
		}
		sort.Strings(gw)
		for _, c := range gw {
			ok := allowed.all
			for _, a := range allowed.comps {
				if c == a || strings.HasPrefix(c, a) {
					ok = true
				}
			}
			e.curPos = fn.Pos()
			e.oblige("frame", "frame.guarded."+strings.TrimPrefix(c, "H."), "writes the lock-guarded field "+strings.TrimPrefix(c, "H.")+" ("+e.guardedWrites[c]+") although the writes/assigns clause does not list it", True, BoolLit(ok), nil)
		}
	}
	if fc != nil && fc.NoGlobals {
		e.curPos = fn.Pos()
		seen := map[string]bool{}
		var scan func(f *ssa.Function, depth int)
		scan = func(f *ssa.Function, depth int) {
			if f == nil || f.Blocks == nil || depth > 3 {
				return
			}
			for _, b := range f.Blocks {
				for _, in := range b.Instrs {
					switch x := in.(type) {
					case *ssa.UnOp:
						if g, ok := x.X.(*ssa.Global); ok && strings.HasPrefix(g.Pkg.Pkg.Path(), modulePath) && !strings.HasPrefix(g.Name(), "init$") {
							if ws := p.globalWriters(g.Pkg.Pkg.Name(), g.Name()); len(ws) > 0 && !seen[g.Name()] {
								seen[g.Name()] = true
								o := e.oblige("noglobals", "noglobals@"+g.Pkg.Pkg.Name()+"."+g.Name(), "reads package-level variable "+g.Name()+", which is shared by every validator instance in the process (written by "+strings.Join(ws, ", ")+")", True, False, &Clause{Kind: "noglobals", Text: "noglobals", Src: fc.Src})
								_ = o
							}
						}
					case ssa.CallInstruction:
						if callee, ok := x.Common().Value.(*ssa.Function); ok && p.isRepoFunc(callee) && p.lookupContract(p.FuncIDOf(callee)) == nil {
							scan(callee, depth+1)
						}
					}
				}
			}
		}
		scan(fn, 0)
	}
	res.Obls = e.obls
	res.GoTargets = e.goTargets
	res.finish(e)
	return
}

func (r *FuncResult) finish(e *Engine) {
	for n := range e.notes {
		r.Notes = append(r.Notes, n)
	}
	sort.Strings(r.Notes)
	for u := range e.used {
		r.Used = append(r.Used, u)
	}
	sort.Strings(r.Used)
	r.CErrors = append(r.CErrors, e.cerrors...)
}

// isGuardedComp: heap component of a lock-guarded field (may change under other goroutines; callers cannot
// rely on it without the lock, so it is outside every frame).
func (p *Program) isGuardedComp(name string) bool {
	if !strings.HasPrefix(name, "H.") {
		return false
	}
	for id, tc := range p.Contracts.Types {
		for f := range tc.Guarded {
			pre := "H." + id + "." + f
			if name == pre || strings.HasPrefix(name, pre+".") {
				return true
			}
		}
	}
	return false
}

func (p *Program) ifaceType(iid string) types.Type {
	parts := strings.Split(iid, ".")
	if len(parts) != 3 {
		return nil
	}
	for _, tp := range p.pkgsByName[parts[0]] {
		if tn, ok := tp.Scope().Lookup(parts[1]).(*types.TypeName); ok {
			if _, ok := tn.Type().Underlying().(*types.Interface); ok {
				return tn.Type()
			}
		}
	}
	return nil
}

func (p *Program) ifaceMethod(iid string) *types.Func {
	parts := strings.Split(iid, ".")
	if len(parts) != 3 {
		return nil
	}
	for _, tp := range p.pkgsByName[parts[0]] {
		if tn, ok := tp.Scope().Lookup(parts[1]).(*types.TypeName); ok {
			if it, ok := tn.Type().Underlying().(*types.Interface); ok {
				for i := 0; i < it.NumMethods(); i++ {
					if it.Method(i).Name() == parts[2] {
						return it.Method(i)
					}
				}
			}
		}
	}
	return nil
}

// checkFrameAt: at a return, every heap component not covered by the assigns clause has the same
// contents as at entry for every object that existed at entry ("*param" objects excepted).
func (e *Engine) checkFrameAt(fn *ssa.Function, fc *FuncContract, bind map[string]Val, k int, x exitInfo) {
	allowed := e.P.expandAssigns(fc)
	if allowed.all {
		return
	}
	type exempt struct {
		prefix string // component prefix the exemption applies to ("H." = any object type)
		ref    Term
	}
	var exempts []exempt
	for _, a := range fc.Assigns {
		if !strings.HasPrefix(a, "*") || len(a) == 1 {
			continue
		}
		pv, ok := bind[a[1:]]
		if !ok {
			e.cerrors = append(e.cerrors, fmt.Sprintf("%s: assigns %s: no such parameter", fc.Src, a))
			continue
		}
		switch u := pv.T.Underlying().(type) {
		case *types.Pointer:
			exempts = append(exempts, exempt{"H." + typeID(u.Elem()) + ".", pv.L[0]})
		case *types.Slice:
			exempts = append(exempts, exempt{"E." + typeID(u.Elem()) + ".", pv.L[0]})
		case *types.Interface:
			exempts = append(exempts, exempt{"H.", pv.L[1]})
		}
	}
	covered := func(name string) bool {
		for _, a := range allowed.comps {
			if name == a || strings.HasPrefix(name, a) {
				return true
			}
		}
		return false
	}
	if p := x.instr.Pos(); p.IsValid() {
		e.curPos = p
	}
	var names []string
	for n := range x.st.heap {
		names = append(names, n)
	}
	sort.Strings(names)
	for _, name := range names {
		if covered(name) || name == lockComp || strings.HasPrefix(name, "V.") || e.P.isGuardedComp(name) {
			continue
		}
		fin := x.st.heap[name]
		ini := e.old.comp(name, fin.Sort)
		if fin.S == ini.S {
			continue
		}
		var cond Term
		if strings.HasPrefix(name, "G.") || strings.HasPrefix(name, "K.") || !strings.HasPrefix(string(fin.Sort), "(Array") {
			cond = Eq(fin, ini)
		} else {
			guards := []string{"(<= 0 fr)", "(<= fr alloc0)"}
			for _, ex := range exempts {
				if strings.HasPrefix(name, ex.prefix) {
					guards = append(guards, fmt.Sprintf("(not (= fr %s))", ex.ref.S))
				}
			}
			cond = T(SBool, "(forall ((fr Int)) (=> (and %s) (= (select %s fr) (select %s fr))))", strings.Join(guards, " "), fin.S, ini.S)
		}
		e.oblige("frame", fmt.Sprintf("frame.%s@return%d", sanitize(name), k), "modifies "+name+" on pre-existing objects although the assigns clause does not list it", x.reach, cond,
			&Clause{Kind: "assigns", Text: strings.Join(fc.Assigns, ", "), Src: fc.Src})
	}
}

// ---------------------------------------------------------------- lock discipline (stubs refined later)

// lockOwner resolves which object a mutex belongs to from the shape of the receiver expression:
// x.lockField (field of a struct with a type contract) or a package-level mutex.
type lockOwner struct {
	tc    *TypeContract
	typ   types.Type // struct type of the owner (nil for package-level mutexes)
	obj   Val        // owner object (pointer)
	field string     // name of the lock field / global
	pkg   string
}

func (e *Engine) resolveLockOwner(fr *Frame, st *State, recv ssa.Value) *lockOwner {
	switch x := recv.(type) {
	case *ssa.UnOp: // *(&x.lock) : lock stored as pointer field
		if fa, ok := x.X.(*ssa.FieldAddr); ok {
			return e.ownerOfFieldAddr(fr, st, fa)
		}
	case *ssa.FieldAddr: // &x.lock : lock embedded by value
		return e.ownerOfFieldAddr(fr, st, x)
	case *ssa.Global:
		pkg := x.Pkg.Pkg.Name()
		if tc := e.P.Contracts.Types[pkg+".globals"]; tc != nil {
			return &lockOwner{tc: tc, field: x.Name(), pkg: pkg}
		}
	}
	return nil
}

func (e *Engine) ownerOfFieldAddr(fr *Frame, st *State, fa *ssa.FieldAddr) *lockOwner {
	pt, ok := fa.X.Type().Underlying().(*types.Pointer)
	if !ok {
		return nil
	}
	named, ok := pt.Elem().(*types.Named)
	if !ok {
		return nil
	}
	stt, ok := named.Underlying().(*types.Struct)
	if !ok {
		return nil
	}
	id := named.Obj().Pkg().Name() + "." + named.Obj().Name()
	tc := e.P.Contracts.Types[id]
	if tc == nil {
		return nil
	}
	return &lockOwner{tc: tc, typ: named, obj: e.valueOf(fr, st, fa.X), field: stt.Field(fa.Field).Name(), pkg: named.Obj().Pkg().Name()}
}

// lock order: a declared total order on lock classes ("Type.field" / "pkg.global"); a goroutine may only
// acquire a lock whose class is greater than every class it already holds.
func (e *Engine) lockClass(o *lockOwner) string {
	if o == nil {
		return ""
	}
	if o.typ != nil {
		return o.typ.(*types.Named).Obj().Name() + "." + o.field
	}
	return o.pkg + "." + o.field
}

func (e *Engine) lockOrder(st *State, reach Term, m Term, label string) {}

func (e *Engine) monitorEnter(st *State, reach Term, m Term, write bool) {
	o := e.curLockOwner
	if o == nil {
		return
	}
	e.used["monitor discipline: fields guarded by "+e.lockClass(o)+" are arbitrary (subject to the type invariant) whenever the lock is acquired"] = true
	if o.typ != nil {
		stt := o.typ.Underlying().(*types.Struct)
		ref := e.flat(st, reach, o.obj)[0]
		for i := 0; i < stt.NumFields(); i++ {
			f := stt.Field(i)
			if o.tc.Guarded[f.Name()] != o.field {
				continue
			}
			off, n := fieldRange(o.typ, i)
			root := Layout(o.typ)
			hv := e.havocVal(reach, "mon."+f.Name(), f.Type())
			for k := 0; k < n; k++ {
				lf := root[off+k]
				name := "H." + typeID(o.typ) + "." + lf.Path
				arr := st.comp(name, ArraySort(SInt, lf.Sort))
				st.setComp(name, e.define("h", Store(arr, ref, hv.L[k])))
			}
		}
		for _, inv := range o.tc.Invariants {
			env := e.newEnv(nil, st)
			env.bind = map[string]Val{"self": o.obj}
			env.pkg = o.pkg
			c, err := env.evalBool(inv.E)
			if err != nil {
				e.contractError(inv, err)
				continue
			}
			e.assume(reach, c)
		}
	} else {
		// package-level mutex: guarded package variables become arbitrary
		for g, lk := range o.tc.Guarded {
			if lk != o.field {
				continue
			}
			st.havocPrefix([]string{"G." + o.pkg + "." + g + "."}, false)
		}
		e.reassumeGlobals(st)
	}
}

func (e *Engine) monitorExit(st *State, reach Term, m Term) {
	o := e.curLockOwner
	if o == nil || o.typ == nil {
		return
	}
	for i, inv := range o.tc.Invariants {
		env := e.newEnv(nil, st)
		env.bind = map[string]Val{"self": o.obj}
		env.pkg = o.pkg
		c, err := env.evalBool(inv.E)
		if err != nil {
			e.contractError(inv, err)
			continue
		}
		lbl := inv.Label
		if lbl == "" {
			lbl = fmt.Sprint(i + 1)
		}
		e.kindOrd["typeinv."+lbl]++
		ob := e.oblige("typeinv", fmt.Sprintf("typeinv.%s@unlock#%d", lbl, e.kindOrd["typeinv."+lbl]), "invariant of "+o.tc.ID+" when the lock is released: "+inv.Text, reach, c, inv)
		if ob != nil {
			ob.Props = inv.Props
		}
	}
}

// lockCheck: accesses to guarded fields need the guarding lock (read: any mode, write: write mode).
func (e *Engine) lockCheck(st *State, reach Term, a *Addr, write bool) {
	if a.Kind == aGlobal && e.lockChecks && a.Global != nil && a.Global.Pkg != nil {
		// package-level variable declared guarded_by a package-level mutex (type block "globals")
		pkg := a.Global.Pkg.Pkg.Name()
		tc := e.P.Contracts.Types[pkg+".globals"]
		if tc == nil {
			e.unclassifiedGlobal(reach, a, write, nil)
			return
		}
		lockName, guarded := tc.Guarded[a.Global.Name()]
		if !guarded {
			e.unclassifiedGlobal(reach, a, write, tc)
			return
		}
		mg, ok := a.Global.Pkg.Members[lockName].(*ssa.Global)
		if !ok {
			return
		}
		if e.Fn != nil && e.Fn.Name() == "init" && e.Fn.Synthetic != "" {
			return // the package initialiser runs before any goroutine exists
		}
		mt := mg.Type().(*types.Pointer).Elem()
		m := e.reify(st, reach, Val{T: mg.Type(), Addr: &Addr{Kind: aGlobal, Global: mg, Root: mt, T: mt}})
		cur := Select(e.heldArr(st), m, SInt)
		cond := Bin(SBool, ">=", cur, IntLit(1))
		mode := "read"
		if write {
			cond = Eq(cur, IntLit(2))
			mode = "write"
		}
		key := "lock.held@" + pkg + "." + a.Global.Name() + "." + mode
		e.kindOrd[key]++
		e.oblige("lock.held", fmt.Sprintf("%s#%d", key, e.kindOrd[key]), mode+" of package variable "+a.Global.Name()+" without holding "+lockName, reach, cond, nil)
		return
	}
	if a.Kind != aHeap || !e.lockChecks {
		return
	}
	named, ok := a.Root.(*types.Named)
	if !ok || named.Obj().Pkg() == nil {
		return
	}
	tc := e.P.Contracts.Types[named.Obj().Pkg().Name()+"."+named.Obj().Name()]
	if tc == nil {
		return
	}
	stt, ok := named.Underlying().(*types.Struct)
	if !ok {
		return
	}
	// which field does the offset fall into?
	fi := -1
	for i := 0; i < stt.NumFields(); i++ {
		off, n := fieldRange(named, i)
		if a.Off >= off && a.Off < off+n {
			fi = i
		}
	}
	if fi < 0 {
		return
	}
	fname := stt.Field(fi).Name()
	if a.Site > 0 && !e.reified[a.Site] {
		return // object under construction, not yet published
	}
	what := named.Obj().Name() + "." + fname
	if _, guarded := tc.Guarded[fname]; guarded && write {
		e.noteGuardedWrite("H."+named.Obj().Pkg().Name()+"."+named.Obj().Name()+"."+fname, "at "+e.posString(token.NoPos))
	}
	if lockField, guarded := tc.Guarded[fname]; guarded {
		// the lock is the value of the owner's lock field (pointer) or its address (embedded)
		var m Term
		for i := 0; i < stt.NumFields(); i++ {
			if stt.Field(i).Name() == lockField {
				off, _ := fieldRange(named, i)
				lf := Layout(named)[off]
				if lf.Kind == kRef {
					m = Select(st.comp("H."+typeID(named)+"."+lf.Path, ArraySort(SInt, SInt)), a.Ref, SInt)
				}
			}
		}
		if m.S == "" {
			return
		}
		cur := Select(e.heldArr(st), m, SInt)
		cond := Bin(SBool, ">=", cur, IntLit(1))
		mode := "read"
		if write {
			cond = Eq(cur, IntLit(2))
			mode = "write"
		}
		key := "lock.held@" + what + "." + mode
		e.kindOrd[key]++
		e.oblige("lock.held", fmt.Sprintf("%s#%d", key, e.kindOrd[key]), mode+" of "+what+" without holding "+lockField, reach, cond, nil)
		return
	}
	if tc.Immutable[fname] {
		if write && e.FC != nil && e.FC.Constructor {
			e.note("immutable field %s initialised in the configuration phase (constructor)", what)
			return
		}
		if write {
			key := "lock.immutable@" + what
			e.kindOrd[key]++
			e.oblige("lock.held", fmt.Sprintf("%s#%d", key, e.kindOrd[key]), "write to "+what+" which is declared immutable after publication", reach, False, nil)
		}
		return
	}
	if !e.unclassified[what] {
		e.unclassified[what] = true
		e.oblige("lock.held", "lock.unclassified@"+what, "field "+what+" is neither guarded_by a lock nor immutable", reach, False, nil)
	}
}

// sharedGlobal: a package-level variable of the module under verification that can hold state shared between
// goroutines: not a synchronisation primitive, not a blank interface guard, not declared in the package's `globals` block.
func (e *Engine) sharedGlobal(g *ssa.Global, tc *TypeContract) bool {
	if g == nil || g.Pkg == nil || !strings.HasPrefix(g.Pkg.Pkg.Path(), modulePath) || strings.HasPrefix(g.Name(), "init$") || g.Name() == "_" {
		return false
	}
	if tc != nil {
		if _, ok := tc.Guarded[g.Name()]; ok || tc.Immutable[g.Name()] {
			return false
		}
	}
	if e.Fn != nil && e.Fn.Name() == "init" && e.Fn.Synthetic != "" {
		return false // the package initialiser runs before any goroutine exists
	}
	if n, ok := g.Type().(*types.Pointer).Elem().(*types.Named); ok && n.Obj().Pkg() != nil && n.Obj().Pkg().Path() == "sync" {
		return false
	}
	return true
}

// unclassifiedGlobal: a package variable that no contract declares guarded or immutable is written outside the
// package initialiser: every goroutine shares it, so the write is a data race unless a lock is declared for it.
func (e *Engine) unclassifiedGlobal(reach Term, a *Addr, write bool, tc *TypeContract) {
	if !write || !e.sharedGlobal(a.Global, tc) {
		return
	}
	what := a.Global.Pkg.Pkg.Name() + "." + a.Global.Name()
	if !e.unclassified[what] {
		e.unclassified[what] = true
		e.oblige("lock.held", "lock.unclassified@"+what, "package variable "+what+" is written after package initialisation but is neither guarded_by a lock nor immutable", reach, False, nil)
	}
}

// noteGlobalVal: remember references loaded from package variables that no contract declares guarded or immutable.
func (e *Engine) noteGlobalVal(a *Addr, out Val) {
	if a.Kind != aGlobal || !e.lockChecks || len(out.L) == 0 {
		return
	}
	var tc *TypeContract
	if a.Global != nil && a.Global.Pkg != nil {
		tc = e.P.Contracts.Types[a.Global.Pkg.Pkg.Name()+".globals"]
	}
	if !e.sharedGlobal(a.Global, tc) {
		return
	}
	leaf := out.L[0]
	if _, isIface := out.T.Underlying().(*types.Interface); isIface && len(out.L) == 2 {
		leaf = out.L[1]
	}
	if e.globalVals == nil {
		e.globalVals = map[string]string{}
	}
	e.globalVals[leaf.S] = a.Global.Pkg.Pkg.Name() + "." + a.Global.Name()
}

// globalCallCheck: a method with effects is called on the object a package variable holds; all goroutines share that
// object and nothing says which lock protects it.
func (e *Engine) globalCallCheck(reach Term, recv Val, method string, pure bool) {
	if len(e.globalVals) == 0 || len(recv.L) == 0 || pure {
		return
	}
	leaf := recv.L[0]
	if _, isIface := recv.T.Underlying().(*types.Interface); isIface && len(recv.L) == 2 {
		leaf = recv.L[1]
	}
	what, ok := e.globalVals[leaf.S]
	if !ok {
		return
	}
	key := "lock.shared@" + what + "." + method
	e.kindOrd[key]++
	e.oblige("lock.held", fmt.Sprintf("%s#%d", key, e.kindOrd[key]), "call of "+method+" (not known to be free of effects) on the object held in package variable "+what+", which every goroutine shares and which no lock is declared for", reach, False, nil)
}

// ownedRec: a reference loaded from an `owns` field: the lock that protects the object behind it.
type ownedRec struct {
	lock    Term
	what    string
	readers map[string]bool
}

// noteOwned: remember references loaded from fields declared `owns <lock>: <field>`.
func (e *Engine) noteOwned(st *State, a *Addr, out Val) {
	if a.Kind != aHeap || !e.lockChecks {
		return
	}
	named, ok := a.Root.(*types.Named)
	if !ok || named.Obj().Pkg() == nil {
		return
	}
	tc := e.P.Contracts.Types[named.Obj().Pkg().Name()+"."+named.Obj().Name()]
	if tc == nil || len(tc.Owned) == 0 {
		return
	}
	stt, ok := named.Underlying().(*types.Struct)
	if !ok {
		return
	}
	if a.Site > 0 && !e.reified[a.Site] {
		return
	}
	for i := 0; i < stt.NumFields(); i++ {
		off, n := fieldRange(named, i)
		of := tc.Owned[stt.Field(i).Name()]
		if of == nil || a.Off < off || a.Off >= off+n || a.Off != off {
			continue
		}
		var m Term
		for j := 0; j < stt.NumFields(); j++ {
			if stt.Field(j).Name() == of.Lock {
				loff, _ := fieldRange(named, j)
				lf := Layout(named)[loff]
				if lf.Kind == kRef {
					m = Select(st.comp("H."+typeID(named)+"."+lf.Path, ArraySort(SInt, SInt)), a.Ref, SInt)
				}
			}
		}
		if m.S == "" || len(out.L) == 0 {
			continue
		}
		leaf := out.L[0]
		if _, isIface := out.T.Underlying().(*types.Interface); isIface && len(out.L) == 2 {
			leaf = out.L[1]
		}
		if e.ownedVals == nil {
			e.ownedVals = map[string]*ownedRec{}
		}
		e.ownedVals[leaf.S] = &ownedRec{lock: m, what: named.Obj().Name() + "." + stt.Field(i).Name(), readers: of.Readers}
	}
}

// ownedCallCheck: a method call on an object that belongs to a lock's representation needs that lock.
func (e *Engine) ownedCallCheck(st *State, reach Term, recv Val, method string) {
	if len(e.ownedVals) == 0 || len(recv.L) == 0 {
		return
	}
	leaf := recv.L[0]
	if _, isIface := recv.T.Underlying().(*types.Interface); isIface && len(recv.L) == 2 {
		leaf = recv.L[1]
	}
	rec := e.ownedVals[leaf.S]
	if rec == nil {
		return
	}
	cur := Select(e.heldArr(st), rec.lock, SInt)
	cond := Bin(SBool, ">=", cur, IntLit(1))
	mode := "any"
	if !rec.readers[method] {
		cond = Eq(cur, IntLit(2))
		mode = "write"
	}
	key := "lock.held@" + rec.what + "." + method
	e.kindOrd[key]++
	e.oblige("lock.held", fmt.Sprintf("%s#%d", key, e.kindOrd[key]), "call of "+method+" on the object owned through "+rec.what+" without holding its lock ("+mode+" mode needed)", reach, cond, nil)
}

func (e *Engine) noteGuardedWrite(comp, how string) {
	if e.guardedWrites == nil {
		e.guardedWrites = map[string]string{}
	}
	if _, ok := e.guardedWrites[comp]; !ok {
		e.guardedWrites[comp] = how
	}
}

func (e *Engine) lockCheckMap(st *State, reach Term, m ssa.Value, write bool) {}

// ---------------------------------------------------------------- discharge

type SolveOptions struct {
	Known   map[string]bool
	Timeout time.Duration
	Both    bool
	OutDir  string
	Workers int
}

func SolveAll(results []*FuncResult, opt SolveOptions) {
	type job struct {
		e *Engine
		o *Obligation
	}
	var jobs []job
	for _, r := range results {
		for _, o := range r.Obls {
			if o.Result.Status == "" {
				jobs = append(jobs, job{r.Engine, o})
			}
		}
	}
	ch := make(chan job)
	var wg sync.WaitGroup
	if opt.Workers <= 0 {
		opt.Workers = 5
	}
	os.MkdirAll(opt.OutDir, 0o755)
	// a change that makes one function's obligations hard would otherwise cost (obligations x timeout): after
	// maxTimeouts undischarged, unlisted obligations in one function the rest of that function is not attempted
	var tmu sync.Mutex
	timeouts := map[string]int{}
	const maxTimeouts = 6
	for w := 0; w < opt.Workers; w++ {
		wg.Add(1)
		go func() {
			defer wg.Done()
			for j := range ch {
				tmu.Lock()
				skip := timeouts[j.o.Func] >= maxTimeouts && j.o.Expect != "sat" && !(opt.Known != nil && opt.Known[j.o.ID])
				tmu.Unlock()
				if skip {
					j.o.Result = SolveResult{Status: "skipped", Solver: "none", Output: fmt.Sprintf("not attempted: %d other obligations of %s already timed out in this run", maxTimeouts, j.o.Func)}
					continue
				}
				q := j.e.BuildQuery(j.o)
				j.o.Query = q
				name := sanitizeFile(j.o.ID)
				var r SolveResult
				var all []SolveResult
				if opt.Known != nil && opt.Known[j.o.ID] {
					// an obligation recorded as a known finding: one short round is enough to see whether it still fails
					r, all = portfolioWith(solvers, q, opt.OutDir, name, 5*time.Second, false, false)
					j.o.Result = r
					j.o.All = all
					continue
				}
				if j.o.Expect == "sat" && !opt.Both {
					// quick tier: cover queries on the quantifier-free part only
					r = SolveResult{Status: "unknown"}
				} else {
					r, all = Portfolio(q, opt.OutDir, name, opt.Timeout, opt.Both && j.o.Expect != "sat")
				}
				if j.o.Expect == "sat" && r.Status != "sat" && r.Status != "unsat" {
					// cover query inconclusive (quantifiers): retry on the quantifier-free part
					q2 := j.e.buildQuery(j.o, true)
					r2, all2 := Portfolio(q2, opt.OutDir, name+".ground", opt.Timeout, false)
					if r2.Status == "sat" || r2.Status == "unsat" {
						r2.Solver += "(ground)"
						r, all = r2, all2
					}
				}
				j.o.Result = r
				j.o.All = all
				if j.o.Expect != "sat" && r.Status != "unsat" && r.Status != "sat" {
					tmu.Lock()
					timeouts[j.o.Func]++
					tmu.Unlock()
				}
			}
		}()
	}
	for _, j := range jobs {
		ch <- j
	}
	close(ch)
	wg.Wait()
}

func sanitizeFile(s string) string {
	r := strings.NewReplacer("/", "_", "#", "-", "$", "_", "(", "", ")", "", "*", "", " ", "", "<", "", ">", "", "|", "", "[", "", "]", "")
	s = r.Replace(s)
	if len(s) > 150 {
		s = s[:150]
	}
	return s
}

func (o *Obligation) OK() bool {
	if o.Expect == "sat" {
		return o.Result.Status == "sat"
	}
	return o.Result.Status == "unsat"
}

func tmpOutDir() string {
	d := os.Getenv("GOVC_OUT")
	if d == "" {
		base := os.Getenv("TMPDIR")
		if base == "" {
			base = "/tmp"
		}
		d = filepath.Join(base, fmt.Sprintf("govc-out-%d", os.Getpid()))
	}
	return d
}

var _ = token.NoPos


func hasNote(fc *FuncContract, n string) bool {
	for _, x := range fc.Notes {
		if strings.TrimSpace(x) == n {
			return true
		}
	}
	return false
}
