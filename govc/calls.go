package main

import (
	"fmt"
	"go/types"
	"sort"
	"strings"

	"golang.org/x/tools/go/ssa"
)

type starEff struct {
	comp string
	arg  ssa.Value
}

type effects struct {
	all   bool
	comps []string
	freshOnly []string // components changed only at objects the callee allocated
	stars []starEff // "*param" effects on pointer arguments: resolved by the caller (fresh object or not)
}

func (eff *effects) flatten() {
	for _, s := range eff.stars {
		eff.comps = append(eff.comps, s.comp)
	}
	eff.stars = nil
}

// expandAssigns turns "Type.field" shorthands of a contract into heap component prefixes.
func (p *Program) expandAssigns(fc *FuncContract) effects {
	var eff effects
	if fc.Pure {
		return eff
	}
	pkg := strings.SplitN(fc.ID, ".", 2)[0]
	for _, a := range fc.Assigns {
		if strings.HasPrefix(a, "fresh:") {
			continue // only freshly allocated objects of this component change: see freshComps
		}
		switch {
		case strings.HasPrefix(a, "*") && len(a) > 1:
			// "*param": resolved at the call site (applyContract) / against parameter types (frame check)
		case a == "*":
			eff.all = true
		case strings.HasPrefix(a, "H.") || strings.HasPrefix(a, "E.") || strings.HasPrefix(a, "M.") || strings.HasPrefix(a, "G.") || strings.HasPrefix(a, "X."):
			eff.comps = append(eff.comps, a)
		default:
			// T.f  |  pkg.T.f | T.* | T
			parts := strings.Split(a, ".")
			switch len(parts) {
			case 1:
				eff.comps = append(eff.comps, "H."+pkg+"."+parts[0]+".")
			case 2:
				if p.isPkgName(parts[0]) {
					eff.comps = append(eff.comps, "H."+parts[0]+"."+parts[1]+".")
				} else if parts[1] == "*" {
					eff.comps = append(eff.comps, "H."+pkg+"."+parts[0]+".")
				} else {
					eff.comps = append(eff.comps, "H."+pkg+"."+parts[0]+"."+parts[1])
				}
			default:
				if parts[2] == "*" {
					eff.comps = append(eff.comps, "H."+parts[0]+"."+parts[1]+".")
				} else {
					eff.comps = append(eff.comps, "H."+parts[0]+"."+parts[1]+"."+strings.Join(parts[2:], "."))
				}
			}
		}
	}
	return eff
}

func (p *Program) isPkgName(s string) bool { return p.pkgNames[s] }

// freshComps: components of which the function only changes objects it allocated itself ("fresh:X").
func freshComps(fc *FuncContract) []string {
	var out []string
	for _, a := range fc.Assigns {
		if strings.HasPrefix(a, "fresh:") {
			out = append(out, strings.TrimPrefix(a, "fresh:"))
		}
	}
	return out
}

// contractEffectsAt: effects of a contracted callee at a call site, resolving "*param" entries
// against the static (or MakeInterface-revealed) argument types.
func (p *Program) contractEffectsAt(fc *FuncContract, callee *ssa.Function, c *ssa.CallCommon) effects {
	eff := p.expandAssigns(fc)
	eff.freshOnly = append(eff.freshOnly, freshComps(fc)...)
	var args []ssa.Value
	if c.IsInvoke() {
		args = append(args, c.Value)
	}
	args = append(args, c.Args...)
	names := p.paramNames(fc, callee, c, len(args))
	for _, a := range fc.Assigns {
		if !strings.HasPrefix(a, "*") || len(a) == 1 {
			continue
		}
		found := false
		for i, n := range names {
			if n != a[1:] {
				continue
			}
			found = true
			t := args[i].Type()
			if mi, ok := args[i].(*ssa.MakeInterface); ok {
				t = mi.X.Type()
			}
			switch u := t.Underlying().(type) {
			case *types.Pointer:
				if al, isAlloc := args[i].(*ssa.Alloc); isAlloc && al != nil {
					// the caller's own fresh variable
				} else if mi, ok := args[i].(*ssa.MakeInterface); ok {
					if _, isAlloc := mi.X.(*ssa.Alloc); isAlloc {
						break
					}
					eff.stars = append(eff.stars, starEff{"H." + typeID(u.Elem()) + ".", mi.X})
				} else {
					eff.stars = append(eff.stars, starEff{"H." + typeID(u.Elem()) + ".", args[i]})
				}
			case *types.Slice:
				eff.comps = append(eff.comps, "E."+typeID(u.Elem())+".")
			case *types.Interface:
				// some object of unknown type changes: any H component, nothing else
				eff.comps = append(eff.comps, "H.")
			default:
				eff.all = true
			}
		}
		if !found && a != "*self" {
			eff.all = true
		} else if !found && len(args) > 0 {
			if pt, ok := args[0].Type().Underlying().(*types.Pointer); ok {
				eff.stars = append(eff.stars, starEff{"H." + typeID(pt.Elem()) + ".", args[0]})
			} else {
				eff.comps = append(eff.comps, "H.")
			}
		}
	}
	return eff
}

// calleeEffects: what a call may write (used for loop havoc).
func (e *Engine) calleeEffects(ci ssa.CallInstruction) effects {
	c := ci.Common()
	if _, ok := c.Value.(*ssa.Builtin); ok && !c.IsInvoke() {
		return effects{}
	}
	id, fn := e.P.calleeID(c)
	if fc := e.P.lookupContract(id); fc != nil {
		return e.P.contractEffectsAt(fc, fn, c)
	}
	if fn != nil && e.P.inlinable(fn, 0) {
		return e.P.bodyEffects(fn, 0)
	}
	if mc, ok := c.Value.(*ssa.MakeClosure); ok {
		return e.P.bodyEffects(mc.Fn.(*ssa.Function), 0)
	}
	return effects{all: true}
}

// bodyEffects scans a function body for stores (coarse, type-level).
func (p *Program) bodyEffects(fn *ssa.Function, depth int) effects {
	var eff effects
	if depth > 4 || fn.Blocks == nil {
		return effects{all: true}
	}
	set := map[string]bool{}
	for _, b := range fn.Blocks {
		for _, in := range b.Instrs {
			switch x := in.(type) {
			case *ssa.Store:
				root := x.Addr
				for {
					if fa, ok := root.(*ssa.FieldAddr); ok {
						root = fa.X
						continue
					}
					break
				}
				switch y := root.(type) {
				case *ssa.FreeVar:
					// assignment to a captured variable: accounted for at the call site that passes the closure
				case *ssa.Alloc:
					// stores into the function's own fresh local variables are invisible to callers
				case *ssa.IndexAddr:
					if sl, ok := y.X.Type().Underlying().(*types.Slice); ok {
						set["E."+typeID(sl.Elem())+"."] = true
					} else if _, isAlloc := y.X.(*ssa.Alloc); isAlloc && arrayElemOfPtr(y.X.Type()) != nil {
						// own fresh array (varargs)
					} else if at := arrayElemOfPtr(y.X.Type()); at != nil {
						set["E."+typeID(at)+"."] = true
					} else {
						eff.all = true
					}
				case *ssa.Global:
					set["G."+y.Pkg.Pkg.Name()+"."+y.Name()+"."] = true
				default:
					if pt, ok := root.Type().Underlying().(*types.Pointer); ok {
						set["H."+typeID(pt.Elem())+"."] = true
					} else {
						eff.all = true
					}
				}
			case *ssa.MapUpdate:
				set["M."+typeID(x.Map.Type().Underlying())+"."] = true
			case ssa.CallInstruction:
				if _, isGo := in.(*ssa.Go); isGo {
					continue
				}
				c := x.Common()
				if bi, ok := c.Value.(*ssa.Builtin); ok && !c.IsInvoke() {
					switch bi.Name() {
					case "append", "copy":
						if sl, ok := c.Args[0].Type().Underlying().(*types.Slice); ok {
							set["E."+typeID(sl.Elem())+"."] = true
						}
					case "delete":
						set["M."+typeID(c.Args[0].Type().Underlying())+"."] = true
					}
					continue
				}
				id, callee := p.calleeID(c)
				if fc := p.lookupContract(id); fc != nil {
					sub := p.contractEffectsAt(fc, callee, c)
					sub.flatten()
					if sub.all {
						eff.all = true
					}
					for _, s := range sub.comps {
						set[s] = true
					}
				} else if callee != nil && p.inlinable(callee, depth+1) {
					sub := p.bodyEffects(callee, depth+1)
					if sub.all {
						eff.all = true
					}
					for _, s := range sub.comps {
						set[s] = true
					}
				} else if mc, ok := c.Value.(*ssa.MakeClosure); ok {
					sub := p.bodyEffects(mc.Fn.(*ssa.Function), depth+1)
					if sub.all {
						eff.all = true
					}
					for _, s := range sub.comps {
						set[s] = true
					}
				} else {
					eff.all = true
				}
			}
		}
	}
	for s := range set {
		eff.comps = append(eff.comps, s)
	}
	sort.Strings(eff.comps)
	return eff
}

func (p *Program) inlinable(fn *ssa.Function, depth int) bool {
	if fn == nil || fn.Blocks == nil || depth > 3 {
		return false
	}
	if !p.isRepoFunc(fn) {
		return false
	}
	n := 0
	for _, b := range fn.Blocks {
		n += len(b.Instrs)
		for _, s := range b.Succs {
			if s.Dominates(b) {
				return false // loops need invariants
			}
		}
	}
	if n > 120 {
		return false
	}
	if fc := p.lookupContract(p.FuncIDOf(fn)); fc != nil {
		return false
	}
	return true
}

// calleeID resolves the contract id of a call and, for static calls, the callee.
func (p *Program) calleeID(c *ssa.CallCommon) (string, *ssa.Function) {
	if c.IsInvoke() {
		return p.methodID(c.Method), nil
	}
	switch f := c.Value.(type) {
	case *ssa.Function:
		return p.FuncIDOf(f), f
	case *ssa.MakeClosure:
		fn := f.Fn.(*ssa.Function)
		return p.FuncIDOf(fn), fn
	}
	return "", nil
}

// call executes a call instruction (by contract, by inlining, or as havoc).
func (e *Engine) call(fr *Frame, st *State, reach Term, site ssa.Instruction, c *ssa.CallCommon, pre *deferEntry) (Val, Term) {
	resT := c.Signature().Results()
	var resType types.Type = resT
	if resT.Len() == 1 {
		resType = resT.At(0).Type()
	}
	// arguments
	var args []Val
	var fnVal Val
	if pre != nil {
		args = pre.args
		if pre.recv != nil {
			args = append([]Val{*pre.recv}, args...)
		} else {
			fnVal = pre.fn
		}
	} else {
		if c.IsInvoke() {
			args = append(args, e.valueOf(fr, st, c.Value))
		} else {
			if _, isB := c.Value.(*ssa.Builtin); !isB {
				fnVal = e.valueOf(fr, st, c.Value)
			}
		}
		for _, a := range c.Args {
			args = append(args, e.valueOf(fr, st, a))
		}
	}
	if bi, ok := c.Value.(*ssa.Builtin); ok && !c.IsInvoke() {
		if bi.Name() == "close" && len(args) == 1 && len(args[0].L) >= 1 {
			// close(ch) is a visible event (contracts: called(close#k)); closing a nil channel panics
			e.safety("nil", "close", reach, Not(Eq(args[0].L[0], IntLit(0))))
			e.callOrd["close"]++
			e.labels[fmt.Sprintf("close#%d", e.callOrd["close"])] = &callLabel{Reach: reach, Args: args}
		}
		return e.builtin(fr, st, reach, bi, c, args, resType), reach
	}
	var id string
	var callee *ssa.Function
	if c.IsInvoke() {
		id = e.P.methodID(c.Method)
		e.safety("nil", "invoke."+c.Method.Name(), reach, Not(Eq(args[0].L[0], IntLit(0))))
	} else if fnVal.Clo != nil {
		callee = fnVal.Clo.Fn
		id = e.P.FuncIDOf(callee)
	}
	label := e.callLabel(id, callee, c)
	for _, fcall := range e.P.Contracts.ForbidCalls {
		if fcall.Callee == id {
			if o := e.oblige("structure", "structure.no_call."+id+"@"+label, "call of "+id+" is not allowed here: "+fcall.Reason, reach, False, nil); o != nil {
				o.Props = fcall.Props
			}
		}
	}
	if e.lockChecks && pre == nil && e.unwinding == 0 && !strings.HasPrefix(id, "sync.") && len(st.acquired) > 0 {
		// a lock taken by this function and still held across a call must be released by a deferred Unlock:
		// a panic in the callee (recovered further up: refresh goroutines, the HTTP server) would otherwise leak it
		var aks []string
		for k := range st.acquired {
			aks = append(aks, k)
		}
		sort.Strings(aks)
		for _, k := range aks {
			m := st.acquired[k]
			if e.hasDeferredUnlock(st, m) {
				continue
			}
			cur := Select(e.heldArr(st), m, SInt)
			// not held any more, or some registered deferred unlock releases this very mutex (decided by the solver:
			// the two references may be separate loads of the same field)
			cond := Eq(cur, IntLit(0))
			for _, dm := range e.deferredUnlocks(st) {
				cond = Or(cond, Eq(dm, m))
			}
			when := st.acqWhen[k]
			if when.S == "" {
				when = True
			}
			e.oblige("lock.release", "lock.defer@"+label, "a lock taken by this function is held across the call to "+id+" without a deferred Unlock (a panic in the callee leaks the lock)", And(reach, when), cond, nil)
		}
	}
	calleePure := false
	if fc := e.P.lookupContract(id); fc != nil && fc.Pure {
		calleePure = true
	}
	if c.IsInvoke() {
		e.ownedCallCheck(st, reach, args[0], c.Method.Name())
		e.globalCallCheck(reach, args[0], c.Method.Name(), calleePure)
	} else if callee != nil && callee.Signature.Recv() != nil && len(args) > 0 {
		e.ownedCallCheck(st, reach, args[0], callee.Name())
		e.globalCallCheck(reach, args[0], callee.Name(), calleePure)
	}
	// lock primitives
	if strings.HasPrefix(id, "sync.") {
		e.curLockOwner = nil
		if len(c.Args) > 0 && !c.IsInvoke() {
			e.curLockOwner = e.resolveLockOwner(fr, st, c.Args[0])
		}
		if pre != nil && pre.instr != nil && len(pre.instr.Call.Args) > 0 {
			e.curLockOwner = e.resolveLockOwner(pre.fr, st, pre.instr.Call.Args[0])
		}
		if r, ok := e.lockPrimitive(st, reach, id, args, label); ok {
			return r, reach
		}
	}
	if fc := e.P.lookupContract(id); fc != nil {
		if fc.Constructor && !(e.FC != nil && e.FC.Constructor) && e.depth == 0 {
			e.oblige("lock.held", "lock.phase@"+label, "configuration-phase function "+id+" (initialises fields declared immutable) is called from a function that is not in the configuration phase", reach, False, nil)
		}
		if fc.UnboundedAlloc && (e.P.allocChecks[e.FuncID] || e.allocAll) {
			// a contract may state why this call is bounded here (note bounded_call <Name>: <reason>); the reason is
			// an assumption and is listed in the evidence
			exempt := false
			if e.FC != nil {
				for _, n := range e.FC.Notes {
					if strings.HasPrefix(n, "bounded_call "+labelName(id)+":") {
						exempt = true
						e.used["ASSUMED bounded allocation in "+e.FuncID+": "+strings.TrimPrefix(n, "bounded_call ")] = true
					}
				}
			}
			if !exempt {
				e.safety("alloc", "call."+labelName(id), reach, False)
			}
		}
		names := e.P.paramNames(fc, callee, c, len(args))
		res := e.applyContract(fr, st, reach, fc, id, label, names, args, resType)
		return res, reach
	}
	// devirtualise an interface call whose dynamic value is statically known? not attempted.
	if callee != nil && fnVal.Clo != nil && (callee.Parent() != nil || e.P.inlinable(callee, e.depth)) && callee.Blocks != nil && e.depth < 4 && !e.isInlining(callee) && noLoops(callee) {
		return e.inline(st, reach, callee, fnVal.Clo, args, resType, label)
	}
	// unknown effect
	if id == "" {
		id = "dynamic call"
	}
	if e.P.optimistic[id] {
		// second opinion (see check): the unknown callee is taken to return arbitrary values and to change nothing
		e.note("call to %s has no contract: taken as free of effects for the second opinion", id)
		e.used["uncontracted:"+id] = true
		res := e.havocVal(reach, "res."+label, resType)
		// ... and to follow the convention of the language: with a nil error (last result) the other results that
		// are pointers, interfaces, maps or functions are usable (non-nil)
		if rs := splitResults(res); len(rs) >= 2 {
			last := rs[len(rs)-1]
			if n, ok := last.T.(*types.Named); ok && n.Obj().Name() == "error" && n.Obj().Pkg() == nil && len(last.L) == 2 {
				ok := Eq(last.L[0], IntLit(0))
				for _, r := range rs[:len(rs)-1] {
					ls := Layout(r.T)
					if len(ls) != len(r.L) {
						continue
					}
					switch r.T.Underlying().(type) {
					case *types.Pointer, *types.Interface, *types.Map, *types.Signature, *types.Chan:
						for i, l := range ls {
							if l.Kind == kRef || l.Kind == kIfTag {
								e.assume(reach, Implies(ok, Not(Eq(r.L[i], IntLit(0)))))
							}
						}
					}
				}
			}
		}
		e.setLabel(label, &callLabel{Callee: id, Reach: reach, Args: args, Results: splitResults(res), After: st.clone()})
		return res, reach
	}
	e.note("call to %s has no contract: results and all heap state havoc'd", id)
	e.used["uncontracted:"+id] = true
	defer e.reassumeGlobals(st)
	e.exposing = true
	for _, a := range args {
		e.flat(st, reach, a) // arguments escape
		if a.Clo != nil {
			for _, b := range a.Clo.Bindings {
				e.flat(st, reach, b)
			}
		}
	}
	e.exposing = false
	st.havocPrefix([]string{""}, true)
	res := e.havocVal(reach, "res."+label, resType)
	e.setLabel(label, &callLabel{Callee: id, Reach: reach, Args: args, Results: splitResults(res), After: st.clone()})
	return res, reach
}

// assignedFreeVars: captured variables a closure (or a closure nested in it) stores to directly.
func assignedFreeVars(fn *ssa.Function) map[*ssa.FreeVar]bool {
	out := map[*ssa.FreeVar]bool{}
	for _, b := range fn.Blocks {
		for _, in := range b.Instrs {
			switch x := in.(type) {
			case *ssa.Store:
				root := x.Addr
				for {
					if fa, ok := root.(*ssa.FieldAddr); ok {
						root = fa.X
						continue
					}
					break
				}
				if fv, ok := root.(*ssa.FreeVar); ok {
					out[fv] = true
				}
			case *ssa.MakeClosure:
				inner := assignedFreeVars(x.Fn.(*ssa.Function))
				for i, bnd := range x.Bindings {
					if fv, ok := bnd.(*ssa.FreeVar); ok && i < len(x.Fn.(*ssa.Function).FreeVars) && inner[x.Fn.(*ssa.Function).FreeVars[i]] {
						out[fv] = true
					}
				}
			}
		}
	}
	return out
}

// reassumeGlobals: invariants of immutable package variables hold in every state.
func (e *Engine) reassumeGlobals(st *State) {
	if e.Fn.Name() == "init" && e.Fn.Synthetic != "" {
		return
	}
	for _, gi := range e.P.Contracts.Globals {
		env := e.newEnv(nil, st)
		env.pkg = gi.Pkg
		c, err := env.evalBool(gi.Clause.E)
		if err != nil {
			continue
		}
		e.assumeIfRelevant(c, []string{"G." + gi.Pkg + "." + gi.Global + "."})
	}
}

func noLoops(fn *ssa.Function) bool {
	for _, b := range fn.Blocks {
		for _, s := range b.Succs {
			if s.Dominates(b) {
				return false
			}
		}
	}
	return true
}

func (e *Engine) isInlining(fn *ssa.Function) bool {
	for _, f := range e.inlining {
		if f == fn {
			return true
		}
	}
	return false
}

func splitResults(v Val) []Val {
	if tt, ok := v.T.(*types.Tuple); ok {
		var out []Val
		for i := 0; i < tt.Len(); i++ {
			off, n := tupleRange(tt, i)
			out = append(out, Val{T: tt.At(i).Type(), L: v.L[off : off+n]})
		}
		return out
	}
	return []Val{v}
}

// callLabel names a call site: <callee short name>#<k>, k counted in source order per callee name.
// setLabel records the latest execution of a call site. A deferred call runs once per return of the function: its
// site counts as called on every path on which one of those executions happened.
func (e *Engine) setLabel(label string, cl *callLabel) {
	if prev := e.labels[label]; prev != nil && e.unwinding > 0 {
		cl.Reach = Or(prev.Reach, cl.Reach)
	}
	e.labels[label] = cl
}

func (e *Engine) callLabel(id string, callee *ssa.Function, c *ssa.CallCommon) string {
	name := labelName(id)
	if len(e.inlining) > 0 {
		name = e.inlining[len(e.inlining)-1].Name() + "." + name
	}
	key := name
	if c != nil {
		if k, ok := e.P.callOrdinals[e.Fn][c]; ok && len(e.inlining) == 0 {
			return fmt.Sprintf("%s#%d", name, k)
		}
	}
	e.callOrd[key]++
	return fmt.Sprintf("%s#%d", name, e.callOrd[key])
}

// labelName: "pkg.Func" -> "Func", "pkg.Type.Method" -> "Type.Method", closures keep their "$n".
func labelName(id string) string {
	if id == "" {
		return "dyn"
	}
	parts := strings.Split(id, ".")
	if len(parts) >= 3 {
		return strings.Join(parts[len(parts)-2:], ".")
	}
	return parts[len(parts)-1]
}

func (p *Program) paramNames(fc *FuncContract, callee *ssa.Function, c *ssa.CallCommon, n int) []string {
	names := make([]string, n)
	if callee != nil && len(callee.Params) == n {
		for i, pr := range callee.Params {
			names[i] = pr.Name()
		}
		return names
	}
	var sig *types.Signature
	if c != nil && c.IsInvoke() {
		sig = c.Method.Type().(*types.Signature)
		names[0] = "self"
		for i := 0; i < sig.Params().Len() && i+1 < n; i++ {
			names[i+1] = sig.Params().At(i).Name()
		}
		return names
	}
	if c != nil {
		sig = c.Signature()
		off := 0
		if sig.Recv() != nil {
			names[0] = sig.Recv().Name()
			off = 1
		}
		for i := 0; i < sig.Params().Len() && i+off < n; i++ {
			names[i+off] = sig.Params().At(i).Name()
		}
	}
	return names
}

// applyContract: assert pre, havoc frame, assume post.
func (e *Engine) applyContract(fr *Frame, st *State, reach Term, fc *FuncContract, id, label string, names []string, args []Val, resType types.Type) Val {
	if fc.IsSpec || fc.Trusted {
		e.used["assumed contract: "+fc.ID] = true
	}
	bind := map[string]Val{}
	for i, n := range names {
		if n != "" && n != "_" {
			bind[n] = args[i]
		}
		bind[fmt.Sprintf("$%d", i)] = args[i]
	}
	if len(args) > 0 {
		bind["self"] = args[0]
	}
	// preconditions
	for i, rq := range fc.Requires {
		env := e.newEnv(nil, st)
		env.bind = bind
		env.pkg = pkgOfID(fc.ID)
		c, err := env.evalBool(rq.E)
		lbl := rq.Label
		if lbl == "" {
			lbl = fmt.Sprint(i + 1)
		}
		if err != nil {
			e.contractError(rq, err)
			continue
		}
		o := e.oblige("pre", fmt.Sprintf("pre.%s@%s", lbl, label), fc.ID+" requires "+rq.Text, reach, c, rq)
		if o != nil {
			o.Props = rq.Props
		}
	}
	if fc.Decreases != nil && e.FC != nil && e.FC.ID == fc.ID && e.decEntry.S != "" {
		env := e.newEnv(nil, st)
		env.bind = bind
		env.pkg = pkgOfID(fc.ID)
		d, err := env.evalTerm(fc.Decreases.E)
		if err != nil {
			e.contractError(fc.Decreases, err)
		} else {
			e.oblige("dec", "dec@"+label, "recursive call decreases "+fc.Decreases.Text, reach, And(Bin(SBool, "<", d, e.decEntry), Bin(SBool, ">=", e.decEntry, IntLit(0))), fc.Decreases)
		}
	}
	old := st.clone()
	wmBefore := e.watermark()
	if !fc.Pure || len(fc.Fresh) > 0 {
		wmBefore = e.bumpWatermark()
	}
	// arguments escape
	e.exposing = true
	for _, a := range args {
		e.flat(st, reach, a)
		if a.Clo != nil {
			for _, b := range a.Clo.Bindings {
				e.flat(st, reach, b)
			}
		}
	}
	e.exposing = false
	eff := e.P.expandAssigns(fc)
	// writes to lock-guarded fields that the callee's contract allows count as writes of the caller
	{
		comps := eff.comps
		if fc.HasWrites {
			comps = e.P.expandAssigns(&FuncContract{ID: fc.ID, Assigns: fc.Writes}).comps
		}
		for _, c := range comps {
			if e.P.isGuardedComp(c) {
				e.noteGuardedWrite(c, "through "+fc.ID)
			}
		}
	}
	type objHavoc struct {
		ref  Term
		t    types.Type
		elem bool
	}
	var objs []objHavoc
	var anyObjs []Term
	for _, a := range fc.Assigns {
		if !strings.HasPrefix(a, "*") || len(a) == 1 {
			continue
		}
		pv, ok := bind[strings.TrimPrefix(a, "*")]
		if !ok {
			e.cerrors = append(e.cerrors, fmt.Sprintf("%s: assigns %s: no such parameter", fc.Src, a))
			continue
		}
		t := pv.T
		if pv.Dyn != nil {
			t = pv.Dyn
		}
		if pt, ok := t.Underlying().(*types.Pointer); ok {
			var ref Term
			if pv.Dyn != nil {
				ref = pv.L[1]
			} else {
				ref = e.flat(st, reach, pv)[0]
			}
			objs = append(objs, objHavoc{ref, pt.Elem(), false})
		} else if sl, ok := t.Underlying().(*types.Slice); ok {
			objs = append(objs, objHavoc{pv.L[0], sl.Elem(), true})
		} else if _, isIface := t.Underlying().(*types.Interface); isIface {
			if e.P.isRepoInterface(t) {
				// closed world: the object has one of the implementing types
				for _, dt := range e.P.implementers(t) {
					if pt, ok := dt.Underlying().(*types.Pointer); ok {
						objs = append(objs, objHavoc{pv.L[1], pt.Elem(), false})
					}
				}
			} else {
				// dynamic type unknown: the object at that address changes, whatever its type
				anyObjs = append(anyObjs, pv.L[1])
			}
		}
	}
	if eff.all {
		st.havocPrefix([]string{""}, true)
		e.reassumeGlobals(st)
	} else if len(eff.comps) > 0 {
		st.havocPrefix(eff.comps, true)
	}
	if fcs := freshComps(fc); len(fcs) > 0 && !eff.all {
		// the callee changes these components only at objects it allocated: everything the caller can name is unchanged
		before := st.clone()
		st.havocPrefix(fcs, true)
		keep := func(name string, old, nw Term) {
			if nw.S != old.S && strings.HasPrefix(string(nw.Sort), "(Array") {
				e.assumes = append(e.assumes, T(SBool, "(forall ((fr Int)) (! (=> (<= fr %s) (= (select %s fr) (select %s fr))) :pattern ((select %s fr))))", wmBefore, nw, old, nw))
			}
		}
		for name, old := range before.heap {
			for _, fo := range fcs {
				if strings.HasPrefix(name, fo) {
					keep(name, old, st.comp(name, old.Sort))
				}
			}
		}
		ob := st.base
		st.base = func(name string, sort Sort) Term {
			nw := ob(name, sort)
			for _, fo := range fcs {
				if strings.HasPrefix(name, fo) {
					keep(name, before.comp(name, sort), nw)
				}
			}
			return nw
		}
	}
	for _, ref := range anyObjs {
		st.havocObject(ref)
	}
	// closures handed to the callee may be run by it any number of times
	var lastClo *Closure
	for i, a := range args {
		if a.Clo == nil {
			continue
		}
		if i < len(names) && fc.LastCall != "" && names[i] == fc.LastCall {
			lastClo = a.Clo
		}
		ce := e.P.bodyEffects(a.Clo.Fn, 1)
		if lastClo == a.Clo && fc.LastCallAtomic {
			// retry-style callee: every attempt before the last one failed, and failed attempts are assumed to leave
			// the heap as it was (trusted, listed): the last call below starts from the current state
			e.used["TRUSTED: attempts of the closure passed to "+fc.ID+" that fail leave the state unchanged (failures_are_atomic)"] = true
		} else if ce.all {
			st.havocPrefix([]string{""}, true)
		} else if len(ce.comps) > 0 {
			st.havocPrefix(ce.comps, true)
		}
		assigned := assignedFreeVars(a.Clo.Fn)
		for bi, b := range a.Clo.Bindings {
			// captured variables that the closure assigns
			if b.Addr != nil && b.Addr.Kind == aHeap && bi < len(a.Clo.Fn.FreeVars) && assigned[a.Clo.Fn.FreeVars[bi]] {
				hv := e.havocVal(reach, "cap", b.Addr.T)
				e.store(st, b.Addr, hv)
			}
		}
	}
	// object-granular havoc for "*param"
	for _, o := range objs {
		if o.elem {
			for _, lf := range Layout(o.t) {
				name := "E." + typeID(o.t) + "." + lf.Path
				inSort := ArraySort(SInt, lf.Sort)
				arr := st.comp(name, ArraySort(SInt, inSort))
				st.setComp(name, e.define("h", Store(arr, o.ref, e.fresh("hv", inSort))))
			}
			continue
		}
		nv := e.havocVal(reach, "hv", o.t)
		for i, lf := range Layout(o.t) {
			name := "H." + typeID(o.t) + "." + lf.Path
			arr := st.comp(name, ArraySort(SInt, lf.Sort))
			st.setComp(name, e.define("h", Store(arr, o.ref, nv.L[i])))
		}
	}
	// results
	e.noOutside = true
	res := e.havocVal(reach, "res."+label, resType)
	e.noOutside = false
	results := splitResults(res)
	isFresh := map[int]bool{}
	freshLeaf := map[int]int{}
	for _, k := range fc.Fresh {
		if k < len(results) && len(results[k].L) >= 1 {
			isFresh[k] = true
			leaf := 0
			if _, isIface := results[k].T.Underlying().(*types.Interface); isIface && len(results[k].L) == 2 {
				leaf = 1
			}
			site, r := e.newSite(results[k].T)
			if !fc.Pure {
				e.reified[site] = true // the callee may have kept a reference
			}
			if leaf == 1 {
				e.assume(reach, Or(Eq(results[k].L[0], IntLit(0)), Eq(results[k].L[1], r)))
			} else {
				e.assume(reach, Eq(results[k].L[0], r))
			}
			e.siteDeps[results[k].L[leaf].S] = append(e.siteDeps[results[k].L[leaf].S], site)
			freshLeaf[k] = leaf
		}
	}
	for k, r := range results {
		for i, l := range Layout(r.T) {
			if (l.Kind == kRef || l.Kind == kSlArr || l.Kind == kIfRef) && !(isFresh[k] && i == freshLeaf[k]) {
				e.outsideRef(reach, r.L[i])
			}
		}
	}
	post := map[string]Val{}
	for k, v := range bind {
		post[k] = v
	}
	for i, r := range results {
		post[fmt.Sprintf("r%d", i)] = r
	}
	if len(results) >= 1 {
		post["ret"] = results[0]
	}
	if rn := e.P.resultNames(id); rn != nil {
		for i, n := range rn {
			if n != "" && n != "_" && i < len(results) {
				if _, clash := post[n]; !clash {
					post[n] = results[i]
				}
			}
		}
	}
	// conventional names: last error result is "err"
	if len(results) > 0 {
		if _, has := post["err"]; !has {
			last := results[len(results)-1]
			if isErrorType(last.T) {
				post["err"] = last
			}
		}
	}
	if lastClo != nil && len(results) > 0 && noLoops(lastClo.Fn) && e.depth < 4 {
		// summary of a retry-style higher-order function: state and verdict are those of the last call of the closure
		var rt types.Type = lastClo.Fn.Signature.Results()
		if lastClo.Fn.Signature.Results().Len() == 1 {
			rt = lastClo.Fn.Signature.Results().At(0).Type()
		}
		lr, nreach := e.inline(st, reach, lastClo.Fn, lastClo, nil, rt, label+".last")
		_ = nreach
		last := results[len(results)-1]
		if isErrorType(last.T) && isErrorType(lr.T) && len(lr.L) == 2 {
			e.assume(reach, Eq(Eq(last.L[0], IntLit(0)), Eq(lr.L[0], IntLit(0))))
		}
	}
	for _, en := range fc.Ensures {
		if usesTrace(en.E) {
			continue // talks about the callee's own call sites: meaningful only inside the callee
		}
		if en.Kind == "trusted_ensures" {
			e.used["TRUSTED postcondition of "+fc.ID+" (not checked against its body): "+en.Text] = true
		}
		env := e.newEnv(nil, st)
		env.bind = post
		env.old = old
		env.pkg = pkgOfID(fc.ID)
		env.callSite = true
		e.wmCall = wmBefore
		c, err := env.evalBool(en.E)
		if err != nil {
			e.contractError(en, err)
			continue
		}
		e.assume(reach, c)
	}
	e.setLabel(label, &callLabel{Callee: id, Reach: reach, Args: args, Results: results, After: st.clone()})
	return res
}

// usesTrace: the expression mentions called()/res()/arg() of call sites.
func usesTrace(x Expr) bool {
	switch n := x.(type) {
	case ECall:
		if id, ok := n.Fun.(EIdent); ok && (id.Name == "called" || id.Name == "res" || id.Name == "arg" || id.Name == "after") {
			return true
		}
		for _, a := range n.Args {
			if usesTrace(a) {
				return true
			}
		}
	case EBinary:
		return usesTrace(n.X) || usesTrace(n.Y)
	case EUnary:
		return usesTrace(n.X)
	case ESel:
		return usesTrace(n.X)
	case EIndex:
		return usesTrace(n.X) || usesTrace(n.I)
	case EQuant:
		return usesTrace(n.Body)
	}
	return false
}

func pkgOfID(id string) string { return strings.SplitN(id, ".", 2)[0] }

func isErrorType(t types.Type) bool {
	n, ok := t.(*types.Named)
	return ok && n.Obj().Pkg() == nil && n.Obj().Name() == "error"
}

// inline executes a small contract-less callee (or a closure body) in place.
func (e *Engine) inline(st *State, reach Term, callee *ssa.Function, clo *Closure, args []Val, resType types.Type, label string) (Val, Term) {
	e.depth++
	e.inlineN++
	e.inlining = append(e.inlining, callee)
	defer func() { e.depth--; e.inlining = e.inlining[:len(e.inlining)-1] }()
	fr := &Frame{fn: callee, vals: map[ssa.Value]Val{}, params: args, id: e.inlineN}
	if clo != nil {
		fr.freevars = clo.Bindings
	}
	savedDefers := st.defers
	st.defers = nil
	e.outerDefers = append(e.outerDefers, savedDefers)
	exits := e.runBody(fr, st, reach)
	e.outerDefers = e.outerDefers[:len(e.outerDefers)-1]
	var conds []Term
	var sts []*State
	var rvals []Val
	closByIdx := map[int]*Closure{}
	for _, x := range exits {
		conds = append(conds, x.reach)
		sts = append(sts, x.st)
		var flat []Term
		for i, r := range x.results {
			flat = append(flat, e.flat(x.st, x.reach, r)...)
			if r.Clo != nil {
				closByIdx[i] = r.Clo
			}
		}
		rvals = append(rvals, Val{T: resType, L: flat})
	}
	if len(exits) == 0 {
		// callee never returns normally
		return e.havocVal(False, "noret", resType), False
	}
	m := e.mergeStates(conds, sts)
	*st = *m
	st.defers = savedDefers
	res := e.mergeVals("ret."+callee.Name(), conds, rvals, st, reach)
	res.T = resType
	if len(exits) == 1 && len(exits[0].results) == 1 {
		res.Clo = exits[0].results[0].Clo
		res.Addr = nil
	}
	nreach := Or(conds...)
	nreach = e.define("ret", nreach)
	e.setLabel(label, &callLabel{Callee: "inlined:" + e.P.FuncIDOf(callee), Reach: reach, Args: args, Results: splitResults(res)})
	return res, nreach
}

// runDefers executes the deferred calls of this frame in LIFO order, each guarded by
// "the defer statement was executed".
func (e *Engine) runDefers(fr *Frame, st *State, reach Term) Term {
	var mine []*deferEntry
	var rest []*deferEntry
	for _, d := range st.defers {
		if d.fr == fr {
			mine = append(mine, d)
		} else {
			rest = append(rest, d)
		}
	}
	st.defers = rest
	for i := len(mine) - 1; i >= 0; i-- {
		d := mine[i]
		g := And(reach, d.guard)
		if g.S == "false" {
			continue
		}
		// fork: with the deferred call / without
		with := st.clone()
		with.defers = nil
		e.unwinding++
		_, r2 := e.call(fr, with, g, d.instr, d.instr.Common(), d)
		e.unwinding--
		_ = r2
		without := st
		m := e.mergeStates([]Term{d.guard, Not(d.guard)}, []*State{with, without})
		m.defers = rest
		*st = *m
	}
	return reach
}

func (e *Engine) goStmt(fr *Frame, st *State, reach Term, g *ssa.Go) {
	c := g.Common()
	e.note("go statement: the new goroutine's effects are covered by lock discipline only")
	// arguments escape to the new goroutine
	for _, a := range c.Args {
		e.flat(st, reach, e.valueOf(fr, st, a))
	}
	if mc, ok := c.Value.(*ssa.MakeClosure); ok {
		for _, b := range mc.Bindings {
			e.flat(st, reach, e.valueOf(fr, st, b))
		}
	}
	id, callee := e.P.calleeID(c)
	e.goTargets = append(e.goTargets, goTarget{id: id, fn: callee, pos: e.posString(g.Pos()), reach: reach})
	// process survival: a panic in a goroutine without a deferred recover() terminates the whole server
	if callee != nil && callee.Blocks != nil {
		e.kindOrd["gorecover"]++
		name := labelName(id)
		e.oblige("gorecover", fmt.Sprintf("gorecover@go.%s#%d", name, e.kindOrd["gorecover"]),
			"goroutine "+id+" is started without a deferred recover(): a panic in it (e.g. while parsing a fetched CRL) kills the process",
			reach, BoolLit(hasDeferredRecover(callee)), nil)
	}
	// callee precondition is checked with the empty lockset
	if fc := e.P.lookupContract(id); fc != nil && len(fc.Requires) > 0 {
		var args []Val
		for _, a := range c.Args {
			args = append(args, e.valueOf(fr, st, a))
		}
		names := e.P.paramNames(fc, callee, c, len(args))
		bind := map[string]Val{}
		for i, n := range names {
			bind[n] = args[i]
		}
		if mc, ok := c.Value.(*ssa.MakeClosure); ok {
			// captured variables are named like the variables and denote their current values
			cf := mc.Fn.(*ssa.Function)
			for i, b := range mc.Bindings {
				if i < len(cf.FreeVars) {
					bv := e.valueOf(fr, st, b)
					if bv.Addr != nil {
						bind[cf.FreeVars[i].Name()] = e.load(st, bv.Addr)
					}
				}
			}
		}
		st2 := st.clone()
		st2.setComp("L.held", T(ArraySort(SInt, SInt), "((as const (Array Int Int)) 0)"))
		label := e.callLabel(id, callee, c)
		for i, rq := range fc.Requires {
			env := e.newEnv(nil, st2)
			env.bind = bind
			env.pkg = pkgOfID(fc.ID)
			cnd, err := env.evalBool(rq.E)
			if err != nil {
				e.contractError(rq, err)
				continue
			}
			lbl := rq.Label
			if lbl == "" {
				lbl = fmt.Sprint(i + 1)
			}
			e.oblige("pre", fmt.Sprintf("pre.%s@go.%s", lbl, label), fc.ID+" requires "+rq.Text+" (new goroutine, empty lockset)", reach, cnd, rq)
		}
	}
}

// hasDeferredRecover: fn defers (directly) a function literal that calls recover().
func hasDeferredRecover(fn *ssa.Function) bool {
	for _, b := range fn.Blocks {
		for _, in := range b.Instrs {
			d, ok := in.(*ssa.Defer)
			if !ok {
				continue
			}
			var body *ssa.Function
			switch v := d.Call.Value.(type) {
			case *ssa.MakeClosure:
				body = v.Fn.(*ssa.Function)
			case *ssa.Function:
				body = v
			}
			if body == nil {
				continue
			}
			for _, bb := range body.Blocks {
				for _, bi := range bb.Instrs {
					if c, ok := bi.(*ssa.Call); ok {
						if bt, ok := c.Call.Value.(*ssa.Builtin); ok && bt.Name() == "recover" {
							return true
						}
					}
				}
			}
		}
	}
	return false
}

type goTarget struct {
	id    string
	fn    *ssa.Function
	pos   string
	reach Term
}

// ---------------------------------------------------------------- builtins

func (e *Engine) builtin(fr *Frame, st *State, reach Term, bi *ssa.Builtin, c *ssa.CallCommon, args []Val, resType types.Type) Val {
	switch bi.Name() {
	case "len":
		a := args[0]
		switch t := a.T.Underlying().(type) {
		case *types.Slice:
			return Val{T: resType, L: []Term{a.L[2]}}
		case *types.Basic:
			return Val{T: resType, L: []Term{T(SInt, "(strlen %s)", a.L[0])}}
		case *types.Map:
			id, _ := mapComps(t)
			card := Select(st.comp(id+"card", ArraySort(SInt, SInt)), a.L[0], SInt)
			r := e.define("len", Ite(Eq(a.L[0], IntLit(0)), IntLit(0), card))
			e.assume(reach, Bin(SBool, ">=", r, IntLit(0)))
			return Val{T: resType, L: []Term{r}}
		case *types.Array:
			return Val{T: resType, L: []Term{IntLit(t.Len())}}
		case *types.Pointer:
			if at, ok := t.Elem().Underlying().(*types.Array); ok {
				return Val{T: resType, L: []Term{IntLit(at.Len())}}
			}
		}
	case "cap":
		if _, ok := args[0].T.Underlying().(*types.Slice); ok {
			return Val{T: resType, L: []Term{args[0].L[3]}}
		}
	case "append":
		return e.appendOp(fr, st, reach, c, args, resType)
	case "copy":
		return e.copyOp(st, reach, args, resType)
	case "delete":
		m, k := args[0], args[1]
		mt := m.T.Underlying().(*types.Map)
		id, ks := mapComps(mt)
		ref := m.L[0]
		e.lockCheckMap(st, reach, c.Args[0], true)
		hasArr := st.comp(id+"has", ArraySort(SInt, ArraySort(ks, SBool)))
		inner := Select(hasArr, ref, ArraySort(ks, SBool))
		was := Select(inner, k.L[0], SBool)
		card := st.comp(id+"card", ArraySort(SInt, SInt))
		st.setComp(id+"card", e.define("h", Store(card, ref, Ite(was, Bin(SInt, "-", Select(card, ref, SInt), IntLit(1)), Select(card, ref, SInt)))))
		st.setComp(id+"has", e.define("h", Store(hasArr, ref, Store(inner, k.L[0], False))))
		return Val{T: resType}
	case "recover":
		e.note("recover() modelled as an arbitrary value")
		return e.havocVal(reach, "recover", resType)
	case "print", "println":
		return Val{T: resType}
	case "close":
		return Val{T: resType}
	case "ssa:wrapnilchk":
		return args[0]
	case "ssa:deferstack":
		return Val{T: resType, L: []Term{IntLit(0)}}
	case "min", "max":
		if len(args) == 2 && len(args[0].L) == 1 {
			op := "<="
			if bi.Name() == "max" {
				op = ">="
			}
			return Val{T: resType, L: []Term{Ite(Bin(SBool, op, args[0].L[0], args[1].L[0]), args[0].L[0], args[1].L[0])}}
		}
	}
	e.note("unsupported builtin %s", bi.Name())
	return e.havocVal(reach, "builtin", resType)
}

func (e *Engine) appendOp(fr *Frame, st *State, reach Term, c *ssa.CallCommon, args []Val, resType types.Type) Val {
	s, t := args[0], args[1]
	sl := resType.Underlying().(*types.Slice)
	et := sl.Elem()
	sArr, sOff, sLen, sCap := s.L[0], s.L[1], s.L[2], s.L[3]
	var tLen Term
	tIsStr := false
	if b, ok := t.T.Underlying().(*types.Basic); ok && b.Info()&types.IsString != 0 {
		tLen = T(SInt, "(strlen %s)", t.L[0])
		tIsStr = true
	} else {
		tLen = t.L[2]
	}
	nLen := e.define("alen", Bin(SInt, "+", sLen, tLen))
	grow := e.define("agrow", Bin(SBool, ">", nLen, sCap))
	_, nr := e.newSite(types.NewSlice(et))
	rArr := e.define("aarr", Ite(grow, nr, sArr))
	rOff := e.define("aoff", Ite(grow, IntLit(0), sOff))
	nCap := e.fresh("acap", SInt)
	e.assume(reach, And(Bin(SBool, ">=", nCap, nLen), Implies(Not(grow), Eq(nCap, sCap))))
	if !(isConstOne(tLen) && !tIsStr) {
		// appending one element grows the slice by data the program already holds; only bulk appends are checked
		e.allocCheckAppend(reach, grow, nLen)
	}
	for _, lf := range Layout(et) {
		name := "E." + typeID(et) + "." + lf.Path
		inSort := ArraySort(SInt, lf.Sort)
		arr := st.comp(name, ArraySort(SInt, inSort))
		oldInner := e.name("aold", Select(arr, sArr, inSort))
		// grown: a fresh array holding a copy of the old elements followed by the new ones
		niG := e.fresh("agrown", inSort)
		e.assumes = append(e.assumes, T(SBool, "(forall ((a Int)) (! (=> (and (<= 0 a) (< a %s)) (= (select %s a) (select %s (+ a %s)))) :pattern ((select %s a))))",
			sLen, niG, oldInner, sOff, niG))
		var niNG Term // in place: the old array with the new elements written behind the old ones
		if !tIsStr && isConstOne(tLen) {
			tv := e.name("aelem", Select(Select(arr, t.L[0], inSort), t.L[1], lf.Sort))
			e.assumes = append(e.assumes, Eq(Select(niG, sLen, lf.Sort), tv))
			niNG = Store(oldInner, Bin(SInt, "+", sOff, sLen), tv)
		} else {
			var srcG, srcN string
			if tIsStr {
				srcG = fmt.Sprintf("(strat %s (- a %s))", t.L[0], sLen)
				srcN = fmt.Sprintf("(strat %s (- a (+ %s %s)))", t.L[0], sOff, sLen)
			} else {
				tin := e.name("asrc", Select(arr, t.L[0], inSort))
				srcG = fmt.Sprintf("(select %s (+ (- a %s) %s))", tin, sLen, t.L[1])
				srcN = fmt.Sprintf("(select %s (+ (- a (+ %s %s)) %s))", tin, sOff, sLen, t.L[1])
			}
			e.assumes = append(e.assumes, T(SBool, "(forall ((a Int)) (! (=> (and (<= %s a) (< a %s)) (= (select %s a) %s)) :pattern ((select %s a))))", sLen, nLen, niG, srcG, niG))
			n2 := e.fresh("ainplace", inSort)
			e.assumes = append(e.assumes,
				T(SBool, "(forall ((a Int)) (! (=> (and (<= (+ %s %s) a) (< a (+ %s %s))) (= (select %s a) %s)) :pattern ((select %s a))))", sOff, sLen, sOff, nLen, n2, srcN, n2),
				T(SBool, "(forall ((a Int)) (! (=> (or (< a (+ %s %s)) (>= a (+ %s %s))) (= (select %s a) (select %s a))) :pattern ((select %s a))))", sOff, sLen, sOff, nLen, n2, oldInner, n2))
			niNG = n2
		}
		st.setComp(name, e.define("h", Ite(grow, Store(arr, nr, niG), Store(arr, sArr, niNG))))
	}
	return Val{T: resType, L: []Term{rArr, rOff, nLen, nCap}}
}

func isConstOne(t Term) bool { return t.S == "1" }

func (e *Engine) allocCheckAppend(reach, grow, n Term) {
	if !e.P.allocChecks[e.FuncID] && !e.allocAll {
		return
	}
	e.safety("alloc", "append", reach, Implies(grow, Bin(SBool, "<=", n, IntLit(e.P.allocBound(e.FuncID)))))
}

func (e *Engine) copyOp(st *State, reach Term, args []Val, resType types.Type) Val {
	d, s := args[0], args[1]
	dsl := d.T.Underlying().(*types.Slice)
	et := dsl.Elem()
	var sLen Term
	srcStr := false
	if b, ok := s.T.Underlying().(*types.Basic); ok && b.Info()&types.IsString != 0 {
		sLen = T(SInt, "(strlen %s)", s.L[0])
		srcStr = true
	} else {
		sLen = s.L[2]
	}
	n := e.define("cpn", Ite(Bin(SBool, "<=", d.L[2], sLen), d.L[2], sLen))
	for _, lf := range Layout(et) {
		name := "E." + typeID(et) + "." + lf.Path
		inSort := ArraySort(SInt, lf.Sort)
		arr := st.comp(name, ArraySort(SInt, inSort))
		oldInner := e.name("cpold", Select(arr, d.L[0], inSort))
		ni := e.fresh("cpnew", inSort)
		var src string
		if srcStr {
			src = fmt.Sprintf("(strat %s (- a %s))", s.L[0], d.L[1])
		} else {
			src = fmt.Sprintf("(select %s (+ (- a %s) %s))", Select(arr, s.L[0], inSort), d.L[1], s.L[1])
		}
		e.assumes = append(e.assumes,
			T(SBool, "(forall ((a Int)) (! (=> (and (<= %s a) (< a (+ %s %s))) (= (select %s a) %s)) :pattern ((select %s a))))", d.L[1], d.L[1], n, ni, src, ni),
			T(SBool, "(forall ((a Int)) (! (=> (or (< a %s) (>= a (+ %s %s))) (= (select %s a) (select %s a))) :pattern ((select %s a))))", d.L[1], d.L[1], n, ni, oldInner, ni))
		st.setComp(name, e.define("h", Store(arr, d.L[0], ni)))
	}
	return Val{T: resType, L: []Term{n}}
}

// ---------------------------------------------------------------- locks

const lockComp = "L.held"

func (e *Engine) heldArr(st *State) Term { return st.comp(lockComp, ArraySort(SInt, SInt)) }

// lockPrimitive models sync.Mutex / sync.RWMutex operations on the ghost lockset.
// allDefers: the deferred calls registered on this path, including those of the frames an inlined callee runs under.
func (e *Engine) allDefers(st *State) []*deferEntry {
	out := append([]*deferEntry{}, st.defers...)
	for _, ds := range e.outerDefers {
		out = append(out, ds...)
	}
	return out
}

// deferredUnlocks: the mutexes of the deferred Unlock/RUnlock calls registered in the current state.
func (e *Engine) deferredUnlocks(st *State) []Term {
	var out []Term
	for _, d := range e.allDefers(st) {
		if d.instr == nil {
			continue
		}
		id, _ := e.P.calleeID(d.instr.Common())
		if id != "sync.Mutex.Unlock" && id != "sync.RWMutex.Unlock" && id != "sync.RWMutex.RUnlock" {
			continue
		}
		if len(d.args) == 0 {
			continue
		}
		out = append(out, e.reify(st, True, d.args[0]))
	}
	return out
}

// hasDeferredUnlock: a deferred Unlock/RUnlock of mutex m is registered in the current state.
func (e *Engine) hasDeferredUnlock(st *State, m Term) bool {
	for _, d := range e.allDefers(st) {
		if d.instr == nil {
			continue
		}
		id, _ := e.P.calleeID(d.instr.Common())
		if id != "sync.Mutex.Unlock" && id != "sync.RWMutex.Unlock" && id != "sync.RWMutex.RUnlock" {
			continue
		}
		if len(d.args) == 0 {
			continue
		}
		if dm := e.reify(st, True, d.args[0]); dm.S == m.S {
			return true
		}
	}
	return false
}

func (e *Engine) lockPrimitive(st *State, reach Term, id string, args []Val, label string) (Val, bool) {
	var op string
	switch id {
	case "sync.Mutex.Lock", "sync.RWMutex.Lock":
		op = "Lock"
	case "sync.Mutex.Unlock", "sync.RWMutex.Unlock":
		op = "Unlock"
	case "sync.RWMutex.RLock":
		op = "RLock"
	case "sync.RWMutex.RUnlock":
		op = "RUnlock"
	default:
		return Val{}, false
	}
	e.used["assumed contract: sync mutex primitives (non-reentrant reader/writer lock)"] = true
	m := e.reify(st, reach, args[0])
	held := e.heldArr(st)
	cur := Select(held, m, SInt)
	if op == "Lock" || op == "RLock" {
		if st.acquired == nil {
			st.acquired = map[string]Term{}
		}
		if st.acqWhen == nil {
			st.acqWhen = map[string]Term{}
		}
		st.acquired[m.S] = m
		if old, ok := st.acqWhen[m.S]; ok {
			st.acqWhen[m.S] = Or(old, reach)
		} else {
			st.acqWhen[m.S] = reach
		}
	}
	switch op {
	case "Lock":
		e.oblige("lock.reentry", "lock.reentry@"+label, "Lock() on a mutex this goroutine already holds (self-deadlock)", reach, Eq(cur, IntLit(0)), nil).Props = nil
		e.lockOrder(st, reach, m, label)
		st.setComp(lockComp, e.define("held", Store(held, m, IntLit(2))))
		e.monitorEnter(st, reach, m, true)
	case "RLock":
		e.oblige("lock.reentry", "lock.reentry@"+label, "RLock() on a mutex this goroutine already holds (deadlock with a waiting writer)", reach, Eq(cur, IntLit(0)), nil)
		e.lockOrder(st, reach, m, label)
		st.setComp(lockComp, e.define("held", Store(held, m, IntLit(1))))
		e.monitorEnter(st, reach, m, false)
	case "Unlock":
		e.oblige("lock.release", "lock.release@"+label, "Unlock() of a mutex not write-held", reach, Eq(cur, IntLit(2)), nil)
		e.monitorExit(st, reach, m)
		st.setComp(lockComp, e.define("held", Store(held, m, IntLit(0))))
	case "RUnlock":
		e.oblige("lock.release", "lock.release@"+label, "RUnlock() of a mutex not read-held", reach, Eq(cur, IntLit(1)), nil)
		st.setComp(lockComp, e.define("held", Store(held, m, IntLit(0))))
	}
	e.setLabel(label, &callLabel{Reach: reach, Args: args})
	return Val{T: types.NewTuple()}, true
}
