package main

import (
	"encoding/json"
	"fmt"
	"os"
)

// tryReplay turns a solver model into a Go test against the real code (generic builder for a
// stated class of obligations; see replaygen.go). Returns true when the failure was reproduced.
func tryReplay(p *Program, r *FuncResult, o *Obligation, rf *ReplayFile) bool {
	return false
}

func cmdReplay(args []string) int {
	if len(args) < 1 {
		usage()
	}
	data, err := os.ReadFile(args[0])
	if err != nil {
		fmt.Println(err)
		return 2
	}
	var rf ReplayFile
	if err := json.Unmarshal(data, &rf); err != nil {
		fmt.Println(err)
		return 2
	}
	fmt.Printf("property=%s obligation=%s\n  %s at %s\n  solver: %s (%s)\n  verdict: %s\n", rf.Property, rf.Obligation, rf.Clause, rf.Position, rf.Status, rf.Solver, rf.Verdict)
	if rf.Test == "" {
		fmt.Println("  no generated test in this replay file (no-failing-input-found): the failed obligation and solver output are the evidence")
		return 1
	}
	out, ok := runReplayTest(rf.TestPkg, rf.Test)
	fmt.Println(out)
	if ok {
		fmt.Println("REPLAY-CONFIRMED")
		return 1
	}
	fmt.Println("REPLAY-NOT-REPRODUCED")
	return 0
}

func runReplayTest(pkg, src string) (string, bool) { return "", false }
