package main

import (
	"encoding/json"
	"fmt"
	"os"
)

// tryReplay turns a solver model into a Go test against the real code (builder in replaygen.go). Returns true
// when the failure was reproduced: the real function panics on the model's input (or, for allocation and
// precondition obligations, allocates beyond the bound).
func tryReplay(p *Program, r *FuncResult, o *Obligation, rf *ReplayFile) bool {
	if !replayKinds[o.Kind] {
		rf.Verdict = "not-replayed: obligations of kind " + o.Kind + " state a functional property; only the solver's model is recorded"
		return false
	}
	src, pkgDir, why := buildReplay(p, r, o)
	if src == "" {
		rf.Verdict = "not-replayed: " + why
		return false
	}
	rf.Test, rf.TestPkg = src, pkgDir
	out, ran, panicked := runReplayTest(pkgDir, src)
	rf.TestOutput = out
	switch {
	case !ran:
		rf.Verdict = "not-replayed: the generated test did not run (see test_output)"
		return false
	case panicked:
		rf.Verdict = "replayed: the real function panics on the solver's input"
		return true
	case (o.Kind == "alloc" || o.Kind == "pre" || o.Kind == "makelen") && replayAlloc(out) >= replayAllocBound:
		rf.Verdict = fmt.Sprintf("replayed: the real function allocates %d bytes on the solver's input", replayAlloc(out))
		return true
	}
	rf.Verdict = "not-reproduced: the real function returned normally on the solver's input (the model may rely on an over-approximated callee or library)"
	return false
}

func cmdReplay(args []string) int {
	if len(args) < 1 {
		usage()
	}
	data, err := os.ReadFile(args[0])
	if err != nil {
		fmt.Println(err)
		return 2
	}
	var rf ReplayFile
	if err := json.Unmarshal(data, &rf); err != nil {
		fmt.Println(err)
		return 2
	}
	fmt.Printf("property=%s obligation=%s\n  %s at %s\n  solver: %s (%s)\n  verdict: %s\n", rf.Property, rf.Obligation, rf.Clause, rf.Position, rf.Status, rf.Solver, rf.Verdict)
	if rf.Test == "" {
		fmt.Println("  no generated test in this replay file (no-failing-input-found): the failed obligation and solver output are the evidence")
		return 1
	}
	out, _, ok := runReplayTest(rf.TestPkg, rf.Test)
	fmt.Println(out)
	if ok || replayAlloc(out) >= replayAllocBound {
		fmt.Println("REPLAY-CONFIRMED")
		return 1
	}
	fmt.Println("REPLAY-NOT-REPRODUCED")
	return 0
}

