package main

// Evaluation of contract expressions against a symbolic state.

import (
	"sort"
	"fmt"
	"go/constant"
	"go/types"
	"math/big"
	"strconv"
	"strings"

	"golang.org/x/tools/go/ssa"
)

type Env struct {
	e         *Engine
	fr        *Frame
	st        *State
	old       *State
	oldBind   map[string]Val
	loopEntry *State
	bind      map[string]Val
	qvars     map[string]Val
	pkg       string
	reach     Term
	callSite  bool // evaluating a callee's postcondition at a call site
	siteSubst map[string]string // Name#any -> Name#k while a clause about every call site is being instantiated
}

func (e *Engine) newEnv(fr *Frame, st *State) *Env {
	return &Env{e: e, fr: fr, st: st, pkg: pkgOfID(e.FuncID), reach: True}
}

// anySites: the call-site names used with the ordinal "any" in x (label form Name#any).
func anySites(x Expr, out map[string]bool) {
	switch n := x.(type) {
	case EIdent:
		if strings.HasSuffix(n.Name, "#any") {
			out[strings.TrimSuffix(n.Name, "#any")] = true
		}
	case ESel:
		if strings.HasSuffix(n.Name, "#any") {
			out[strings.TrimSuffix(n.exprString(), "#any")] = true
		}
		anySites(n.X, out)
	case ECall:
		for _, a := range n.Args {
			anySites(a, out)
		}
	case EBinary:
		anySites(n.X, out)
		anySites(n.Y, out)
	case EUnary:
		anySites(n.X, out)
	case EIndex:
		anySites(n.X, out)
		anySites(n.I, out)
	case EQuant:
		anySites(n.Body, out)
	}
}

// siteLabels: the labels of the call sites of `name`: the sites of the function under verification itself and the
// sites reached inside callees that were inlined into it (helpers without contract).
func (e *Engine) siteLabels(name string) []string {
	seen := map[string]bool{}
	var out []string
	for c, k := range e.P.callOrdinals[e.Fn] {
		id, _ := e.P.calleeID(c)
		if labelName(id) == name {
			l := fmt.Sprintf("%s#%d", name, k)
			if !seen[l] {
				seen[l] = true
				out = append(out, l)
			}
		}
	}
	for l := range e.labels {
		i := strings.LastIndex(l, "#")
		if i < 0 {
			continue
		}
		base := l[:i]
		if base == name || strings.HasSuffix(base, "."+name) {
			if !seen[l] {
				seen[l] = true
				out = append(out, l)
			}
		}
	}
	sort.Strings(out)
	return out
}

// evalBool evaluates a boolean clause. A clause that uses the label form Name#any is a clause about every
// call site of Name in the function: it is instantiated once per site and the instances are conjoined.
func (env *Env) evalBool(x Expr) (Term, error) {
	if env.siteSubst == nil {
		names := map[string]bool{}
		anySites(x, names)
		if len(names) > 0 {
			var keys []string
			for n := range names {
				keys = append(keys, n)
			}
			sort.Strings(keys)
			combos := []map[string]string{{}}
			for _, n := range keys {
				lbls := env.e.siteLabels(n)
				if len(lbls) == 0 {
					lbls = []string{n + "#1"}
				}
				var next []map[string]string
				for _, c := range combos {
					for _, l := range lbls {
						m := map[string]string{}
						for a, b := range c {
							m[a] = b
						}
						m[n+"#any"] = l
						next = append(next, m)
					}
				}
				combos = next
			}
			out := True
			for _, c := range combos {
				e2 := *env
				e2.siteSubst = c
				t, err := e2.evalBool(x)
				if err != nil {
					return Term{}, err
				}
				out = And(out, t)
			}
			return out, nil
		}
	}
	v, err := env.eval(x)
	if err != nil {
		if ms, ok := err.(*missingSiteError); ok {
			if _, isCall := x.(ECall); isCall {
				// a predicate atom about a call site the code does not have: false
				env.e.note("contract atom %s mentions call site %s which does not exist in %s (atom is false)", x.exprString(), ms.label, ms.fn)
				return False, nil
			}
		}
		return Term{}, err
	}
	if len(v.L) != 1 || v.L[0].Sort != SBool {
		return Term{}, fmt.Errorf("expression %s is not boolean", x.exprString())
	}
	return v.L[0], nil
}

func (env *Env) evalTerm(x Expr) (Term, error) {
	v, err := env.eval(x)
	if err != nil {
		return Term{}, err
	}
	if v.Addr != nil {
		return env.e.reify(env.st, env.reach, v), nil
	}
	if len(v.L) != 1 {
		return Term{}, fmt.Errorf("expression %s is not a scalar (type %v, %d leaves)", x.exprString(), v.T, len(v.L))
	}
	return v.L[0], nil
}

var untypedInt = types.Typ[types.UntypedInt]
var untypedBool = types.Typ[types.UntypedBool]
var untypedNil = types.Typ[types.UntypedNil]

func boolVal(t Term) Val { return Val{T: untypedBool, L: []Term{t}} }
func intVal(t Term) Val  { return Val{T: untypedInt, L: []Term{t}} }

func (env *Env) sub(st *State) *Env {
	c := *env
	c.st = st
	return &c
}

func (env *Env) eval(x Expr) (Val, error) {
	switch n := x.(type) {
	case EInt:
		bi, ok := new(big.Int).SetString(n.Val, 0)
		if !ok {
			return Val{}, fmt.Errorf("bad integer literal %s", n.Val)
		}
		return intVal(BigLit(bi)), nil
	case EStr:
		return Val{T: types.Typ[types.String], L: []Term{env.e.strLit(n.Val)}}, nil
	case EBool:
		return boolVal(BoolLit(n.Val)), nil
	case ENil:
		return Val{T: untypedNil, L: []Term{IntLit(0)}}, nil
	case EIdent:
		return env.ident(n.Name)
	case ESel:
		// package-qualified name?
		if id, ok := n.X.(EIdent); ok {
			if _, bound := env.lookupName(id.Name); !bound && env.e.P.isPkgName(id.Name) {
				return env.pkgMember(id.Name, n.Name)
			}
		}
		xv, err := env.eval(n.X)
		if err != nil {
			return Val{}, err
		}
		return env.field(xv, n.Name)
	case EIndex:
		xv, err := env.eval(n.X)
		if err != nil {
			return Val{}, err
		}
		iv, err := env.eval(n.I)
		if err != nil {
			return Val{}, err
		}
		return env.index(xv, iv)
	case EUnary:
		if n.Op == "&" {
			// address of a package-level variable
			if id, ok := n.X.(EIdent); ok {
				for _, tp := range env.e.P.pkgsByName[env.pkg] {
					if sp := env.e.P.Prog.Package(tp); sp != nil {
						if g, ok := sp.Members[id.Name].(*ssa.Global); ok {
							t := g.Type().(*types.Pointer).Elem()
							return Val{T: g.Type(), Addr: &Addr{Kind: aGlobal, Global: g, Root: t, T: t}}, nil
						}
					}
				}
			}
			return Val{}, fmt.Errorf("& is only supported on package-level variables")
		}
		xv, err := env.eval(n.X)
		if err != nil {
			if ms, ok := err.(*missingSiteError); ok && n.Op == "!" {
				// a literal about a call site the code does not have: false (like called() of that site)
				env.e.note("contract literal %s mentions call site %s which does not exist in %s (literal is false)", n.exprString(), ms.label, ms.fn)
				return boolVal(False), nil
			}
			return Val{}, err
		}
		switch n.Op {
		case "!":
			return boolVal(Not(xv.scalar())), nil
		case "-":
			return intVal(T(SInt, "(- %s)", xv.scalar())), nil
		case "*":
			if _, ok := xv.T.Underlying().(*types.Pointer); !ok {
				return Val{}, fmt.Errorf("dereference of non-pointer %s", n.X.exprString())
			}
			out := env.e.load(env.st, env.e.ptrAddr(xv))
			if env.e.inQuant == 0 && len(out.L) <= 4 {
				env.e.noOutside = true
				env.e.assumeWF(True, out)
				env.e.noOutside = false
			}
			return out, nil
		}
		return Val{}, fmt.Errorf("unsupported unary %s", n.Op)
	case EBinary:
		return env.binary(n)
	case EQuant:
		c := *env
		c.qvars = map[string]Val{}
		for k, v := range env.qvars {
			c.qvars[k] = v
		}
		var decl []string
		for _, qv := range n.Vars {
			sort := sortOfTypeName(qv.Type)
			name := quoteSym("q." + qv.Name)
			decl = append(decl, fmt.Sprintf("(%s %s)", name, sort))
			var t types.Type = untypedInt
			switch sort {
			case SBool:
				t = untypedBool
			case SStr:
				t = types.Typ[types.String]
			}
			c.qvars[qv.Name] = Val{T: t, L: []Term{{name, sort}}}
		}
		env.e.inQuant++
		body, err := c.evalBool(n.Body)
		env.e.inQuant--
		if err != nil {
			return Val{}, err
		}
		q := "forall"
		if !n.Forall {
			q = "exists"
		}
		if len(n.Triggers) > 0 {
			var ts []string
			env.e.inQuant++
			for _, te := range n.Triggers {
				tv, err := c.eval(te)
				if err != nil {
					env.e.inQuant--
					return Val{}, err
				}
				for _, l := range env.e.flat(env.st, env.reach, tv) {
					ts = append(ts, l.S)
				}
			}
			env.e.inQuant--
			return boolVal(T(SBool, "(%s (%s) (! %s :pattern (%s)))", q, strings.Join(decl, " "), body, strings.Join(ts, " "))), nil
		}
		return boolVal(T(SBool, "(%s (%s) %s)", q, strings.Join(decl, " "), body)), nil
	case ECall:
		return env.callExpr(n)
	}
	return Val{}, fmt.Errorf("unsupported expression %T", x)
}

func sortOfTypeName(n string) Sort {
	switch n {
	case "bool":
		return SBool
	case "string":
		return SStr
	}
	return SInt
}

func (env *Env) lookupName(name string) (Val, bool) {
	if v, ok := env.qvars[name]; ok {
		return v, true
	}
	if v, ok := env.bind[name]; ok {
		return v, true
	}
	return Val{}, false
}

func sortType(s Sort) types.Type {
	switch s {
	case SBool:
		return untypedBool
	case SStr:
		return types.Typ[types.String]
	}
	return untypedInt
}

func (env *Env) ident(name string) (Val, error) {
	if v, ok := env.lookupName(name); ok {
		return v, nil
	}
	if strings.HasPrefix(name, "$") && name != "$idx" {
		if sort, ok := env.e.P.Contracts.Ghosts[name[1:]]; ok {
			return Val{T: sortType(sort), L: []Term{env.st.comp("X."+name[1:], sort)}}, nil
		}
		return Val{}, fmt.Errorf("undeclared ghost component %s", name)
	}
	// local variable of the current function (current value)
	if env.fr != nil {
		base, ord := name, 0
		if i := strings.Index(name, "#"); i > 0 {
			base = name[:i]
			ord, _ = strconv.Atoi(name[i+1:])
		}
		var found []*ssa.Alloc
		for _, b := range env.fr.fn.Blocks {
			for _, in := range b.Instrs {
				if a, ok := in.(*ssa.Alloc); ok && a.Comment == base {
					found = append(found, a)
				}
			}
		}
		if len(found) > 0 {
			var a *ssa.Alloc
			if ord > 0 && ord <= len(found) {
				a = found[ord-1]
			} else {
				// prefer the allocation that is live in the current state
				for _, f := range found {
					if pv, ok := env.fr.vals[f]; ok {
						if pv.Addr.Kind == aCell {
							if _, live := env.st.cells[f]; live {
								a = f
							}
						} else {
							a = f
						}
					}
				}
				if a == nil {
					a = found[0]
				}
			}
			pv, ok := env.fr.vals[a]
			if !ok {
				// declared later on this path: an arbitrary value (uses must be guarded, e.g. by called())
				return env.e.havocVal(False, "undeclared."+name, a.Type().(*types.Pointer).Elem()), nil
			}
			return env.e.load(env.st, pv.Addr), nil
		}
	}
	// ghost constants of the engine
	if t, ok := env.e.ghost[name]; ok && t.S != "" {
		return intVal(t), nil
	}
	// package-level object of the contract's package
	if v, err := env.pkgMember(env.pkg, name); err == nil {
		return v, nil
	}
	return Val{}, fmt.Errorf("unknown identifier %q", name)
}

func (env *Env) pkgMember(pkgName, name string) (Val, error) {
	for _, tp := range env.e.P.pkgsByName[pkgName] {
		obj := tp.Scope().Lookup(name)
		if obj == nil {
			continue
		}
		switch o := obj.(type) {
		case *types.Const:
			switch o.Val().Kind() {
			case constant.Int:
				bi, _ := new(big.Int).SetString(o.Val().ExactString(), 10)
				return Val{T: o.Type(), L: []Term{BigLit(bi)}}, nil
			case constant.String:
				return Val{T: o.Type(), L: []Term{env.e.strLit(constant.StringVal(o.Val()))}}, nil
			case constant.Bool:
				return Val{T: o.Type(), L: []Term{BoolLit(constant.BoolVal(o.Val()))}}, nil
			}
		case *types.Var:
			if sp := env.e.P.Prog.Package(tp); sp != nil {
				if g, ok := sp.Members[name].(*ssa.Global); ok {
					t := g.Type().(*types.Pointer).Elem()
					return env.e.load(env.st, &Addr{Kind: aGlobal, Global: g, Root: t, T: t}), nil
				}
			}
		case *types.TypeName:
			return Val{T: o.Type()}, nil
		}
	}
	return Val{}, fmt.Errorf("unknown %s.%s", pkgName, name)
}

func (env *Env) field(xv Val, name string) (Val, error) {
	t := xv.T
	if t == nil {
		return Val{}, fmt.Errorf("selector .%s on untyped value", name)
	}
	if pt, ok := t.Underlying().(*types.Pointer); ok {
		a := env.e.ptrAddr(xv)
		st, ok := pt.Elem().Underlying().(*types.Struct)
		if !ok {
			return Val{}, fmt.Errorf("selector .%s on pointer to non-struct %v", name, pt.Elem())
		}
		for i := 0; i < st.NumFields(); i++ {
			if st.Field(i).Name() == name {
				off, _ := fieldRange(a.T, i)
				na := *a
				na.Off += off
				na.T = st.Field(i).Type()
				out := env.e.load(env.st, &na)
				if env.e.inQuant == 0 && a.Kind != aCell {
					// references read from memory follow the numbering convention (see outsideRef)
					for i, l := range Layout(out.T) {
						if (l.Kind == kRef || l.Kind == kSlArr || l.Kind == kIfRef) && len(out.L[i].S) < 400 {
							env.e.outsideRef(True, out.L[i])
						}
					}
					if len(out.L) <= 4 {
						env.e.noOutside = true
						env.e.assumeWF(True, out)
						env.e.noOutside = false
					}
				}
				return out, nil
			}
		}
		return Val{}, fmt.Errorf("type %v has no field %s", pt.Elem(), name)
	}
	if st, ok := t.Underlying().(*types.Struct); ok {
		for i := 0; i < st.NumFields(); i++ {
			if st.Field(i).Name() == name {
				off, n := fieldRange(t, i)
				return Val{T: st.Field(i).Type(), L: xv.L[off : off+n]}, nil
			}
		}
		return Val{}, fmt.Errorf("type %v has no field %s", t, name)
	}
	return Val{}, fmt.Errorf("selector .%s on %v", name, t)
}

func (env *Env) index(xv, iv Val) (Val, error) {
	if len(xv.L) == 1 && strings.HasPrefix(string(xv.L[0].Sort), "(Array") {
		es := arrayElemSort(xv.L[0].Sort)
		k := env.e.flat(env.st, env.reach, iv)[0]
		return Val{T: sortType(es), L: []Term{Select(xv.L[0], k, es)}}, nil
	}
	switch t := xv.T.Underlying().(type) {
	case *types.Slice:
		et := t.Elem()
		a := &Addr{Kind: aElem, Ref: xv.L[0], Idx: Bin(SInt, "+", xv.L[1], iv.scalar()), Root: et, T: et}
		return env.e.load(env.st, a), nil
	case *types.Map:
		id, ks := mapComps(t)
		out := Val{T: t.Elem()}
		k := env.e.flat(env.st, env.reach, iv)[0]
		for _, lf := range Layout(t.Elem()) {
			arr := env.st.comp(id+"v."+lf.Path, ArraySort(SInt, ArraySort(ks, lf.Sort)))
			out.L = append(out.L, Select(Select(arr, xv.L[0], ArraySort(ks, lf.Sort)), k, lf.Sort))
		}
		return out, nil
	case *types.Basic:
		if t.Info()&types.IsString != 0 {
			return intVal(T(SInt, "(strat %s %s)", xv.L[0], iv.scalar())), nil
		}
	}
	if len(xv.L) == 1 && strings.HasPrefix(string(xv.L[0].Sort), "(Array") {
		es := arrayElemSort(xv.L[0].Sort)
		k := env.e.flat(env.st, env.reach, iv)[0]
		return Val{T: sortType(es), L: []Term{Select(xv.L[0], k, es)}}, nil
	}
	return Val{}, fmt.Errorf("cannot index %v", xv.T)
}

func (env *Env) binary(n EBinary) (Val, error) {
	switch n.Op {
	case "==>", "<==>", "&&", "||":
		a, err := env.evalBool(n.X)
		if err != nil {
			return Val{}, err
		}
		b, err := env.evalBool(n.Y)
		if err != nil {
			return Val{}, err
		}
		switch n.Op {
		case "==>":
			return boolVal(Implies(a, b)), nil
		case "<==>":
			return boolVal(Eq(a, b)), nil
		case "&&":
			return boolVal(And(a, b)), nil
		default:
			return boolVal(Or(a, b)), nil
		}
	}
	a, err := env.eval(n.X)
	if err != nil {
		if ms, ok := err.(*missingSiteError); ok && isComparison(n.Op) {
			// an atom about a call site the code does not have (any more): false, like called() of that site
			env.e.note("contract atom %s mentions call site %s which does not exist in %s (atom is false)", n.exprString(), ms.label, ms.fn)
			return boolVal(False), nil
		}
		return Val{}, err
	}
	b, err := env.eval(n.Y)
	if err != nil {
		if ms, ok := err.(*missingSiteError); ok && isComparison(n.Op) {
			env.e.note("contract atom %s mentions call site %s which does not exist in %s (atom is false)", n.exprString(), ms.label, ms.fn)
			return boolVal(False), nil
		}
		return Val{}, err
	}
	switch n.Op {
	case "==", "!=":
		if !isNilType(a.T) && !isNilType(b.T) && a.Addr == nil && b.Addr == nil && len(a.L) != len(b.L) {
			return Val{}, fmt.Errorf("comparison of values of different shape: %s (%d leaves) and %s (%d leaves)", n.X.exprString(), len(a.L), n.Y.exprString(), len(b.L))
		}
		eq := env.e.valsEqual(env.st, env.reach, a, b)
		if n.Op == "!=" {
			eq = Not(eq)
		}
		return boolVal(eq), nil
	}
	at, err := env.scalarOf(a, n.X)
	if err != nil {
		return Val{}, err
	}
	bt, err := env.scalarOf(b, n.Y)
	if err != nil {
		return Val{}, err
	}
	if at.Sort == SStr && n.Op == "+" {
		return Val{T: types.Typ[types.String], L: []Term{T(SStr, "(str_concat %s %s)", at, bt)}}, nil
	}
	switch n.Op {
	case "<", "<=", ">", ">=":
		return boolVal(Bin(SBool, n.Op, at, bt)), nil
	case "+", "-", "*":
		return intVal(Bin(SInt, n.Op, at, bt)), nil
	case "/":
		return intVal(T(SInt, "(tdiv %s %s)", at, bt)), nil
	case "%":
		return intVal(T(SInt, "(tmod %s %s)", at, bt)), nil
	case "&":
		if c, ok := new(big.Int).SetString(bt.S, 10); ok {
			return intVal(maskAnd(types.Typ[types.Uint64], at, c)), nil
		}
		return intVal(T(SInt, "(band %s %s)", at, bt)), nil
	}
	return Val{}, fmt.Errorf("unsupported operator %s", n.Op)
}

func (env *Env) scalarOf(v Val, x Expr) (Term, error) {
	if v.Addr != nil {
		return env.e.reify(env.st, env.reach, v), nil
	}
	if len(v.L) != 1 {
		return Term{}, fmt.Errorf("%s is not a scalar", x.exprString())
	}
	return v.L[0], nil
}

func labelOf(x Expr) (string, bool) {
	switch n := x.(type) {
	case EIdent:
		return n.Name, true
	case ESel:
		// Type.Method#k
		if id, ok := n.X.(EIdent); ok {
			return id.Name + "." + n.Name, true
		}
		return n.Name, true
	}
	return "", false
}

func (env *Env) callExpr(n ECall) (Val, error) {
	fname := ""
	if id, ok := n.Fun.(EIdent); ok {
		fname = id.Name
	}
	argN := func(k int) error {
		if len(n.Args) != k {
			return fmt.Errorf("%s expects %d argument(s)", fname, k)
		}
		return nil
	}
	switch fname {
	case "old":
		if err := argN(1); err != nil {
			return Val{}, err
		}
		c := *env
		if env.loopEntry != nil && env.old == nil {
			c.st = env.loopEntry
		} else if env.old != nil {
			c.st = env.old
		} else {
			c.st = env.e.old
		}
		if env.fr != nil && env.fr.top && env.loopEntry == nil {
			// inside the function under verification old(x) of a parameter is its entry value
			nb := map[string]Val{}
			for k, v := range env.e.params {
				nb[k] = v
			}
			for k, v := range env.bind {
				nb[k] = v
			}
			c.bind = nb
		}
		return c.eval(n.Args[0])
	case "entry":
		// value at function entry (parameters: entry values; heap: entry heap)
		if err := argN(1); err != nil {
			return Val{}, err
		}
		c := *env
		c.st = env.e.old
		nb := map[string]Val{}
		for k, v := range env.bind {
			nb[k] = v
		}
		for k, v := range env.e.params {
			nb[k] = v
		}
		c.bind = nb
		c.fr = nil
		return c.eval(n.Args[0])
	case "len", "cap":
		if err := argN(1); err != nil {
			return Val{}, err
		}
		v, err := env.eval(n.Args[0])
		if err != nil {
			return Val{}, err
		}
		switch t := v.T.Underlying().(type) {
		case *types.Slice:
			if fname == "cap" {
				return intVal(v.L[3]), nil
			}
			return intVal(v.L[2]), nil
		case *types.Basic:
			if t.Info()&types.IsString != 0 {
				return intVal(T(SInt, "(strlen %s)", v.L[0])), nil
			}
		case *types.Map:
			id, _ := mapComps(t)
			return intVal(Ite(Eq(v.L[0], IntLit(0)), IntLit(0), Select(env.st.comp(id+"card", ArraySort(SInt, SInt)), v.L[0], SInt))), nil
		}
		return Val{}, fmt.Errorf("len of %v", v.T)
	case "has":
		if err := argN(2); err != nil {
			return Val{}, err
		}
		m, err := env.eval(n.Args[0])
		if err != nil {
			return Val{}, err
		}
		k, err := env.eval(n.Args[1])
		if err != nil {
			return Val{}, err
		}
		mt, ok := m.T.Underlying().(*types.Map)
		if !ok {
			return Val{}, fmt.Errorf("has() on non-map")
		}
		id, ks := mapComps(mt)
		h := Select(Select(env.st.comp(id+"has", ArraySort(SInt, ArraySort(ks, SBool))), m.L[0], ArraySort(ks, SBool)), k.L[0], SBool)
		return boolVal(And(Not(Eq(m.L[0], IntLit(0))), h)), nil
	case "after":
		// after(label, e): the value of e in the state right after the call at `label` returned
		if err := argN(2); err != nil {
			return Val{}, err
		}
		lbl, ok := labelOf(n.Args[0])
		if !ok {
			return Val{}, fmt.Errorf("bad call label")
		}
		if strings.HasSuffix(lbl, "#any") {
			if r, ok := env.siteSubst[lbl]; ok {
				lbl = r
			}
		}
		cl := env.e.labels[lbl]
		if cl == nil || cl.After == nil {
			return Val{}, &missingSiteError{lbl, env.e.FuncID}
		}
		c := *env
		c.st = cl.After
		return c.eval(n.Args[1])
	case "called", "res", "arg", "reached":
		if len(n.Args) < 1 {
			return Val{}, fmt.Errorf("%s needs a call label", fname)
		}
		lbl, ok := labelOf(n.Args[0])
		if !ok {
			return Val{}, fmt.Errorf("bad call label")
		}
		if strings.HasSuffix(lbl, "#any") {
			if r, ok := env.siteSubst[lbl]; ok {
				lbl = r
			} else {
				return Val{}, fmt.Errorf("label %s outside a boolean clause", lbl)
			}
		}
		cl := env.e.labels[lbl]
		if fname == "called" {
			if cl == nil {
				if !env.e.knownLabel(lbl) {
					env.e.note("contract mentions call site %s which does not exist in %s (called() is false)", lbl, env.e.FuncID)
				}
				return boolVal(False), nil
			}
			return boolVal(cl.Reach), nil
		}
		idx := 0
		if len(n.Args) > 1 {
			if iv, ok := n.Args[1].(EInt); ok {
				idx, _ = strconv.Atoi(iv.Val)
			}
		}
		if cl == nil {
			// call site not reached so far: an arbitrary value of the right type (uses are guarded by called())
			c := env.e.labelCall(lbl)
			if c == nil {
				return Val{}, &missingSiteError{lbl, env.e.FuncID}
			}
			var t types.Type
			if fname == "res" {
				rs := c.Signature().Results()
				if idx >= rs.Len() {
					return Val{}, fmt.Errorf("call %s has %d results", lbl, rs.Len())
				}
				t = rs.At(idx).Type()
			} else {
				var ats []types.Type
				if c.IsInvoke() {
					ats = append(ats, c.Value.Type())
				}
				for _, a := range c.Args {
					ats = append(ats, a.Type())
				}
				if idx >= len(ats) {
					return Val{}, fmt.Errorf("call %s has %d arguments", lbl, len(ats))
				}
				t = ats[idx]
			}
			return env.e.havocVal(False, "unreached", t), nil
		}
		if fname == "res" {
			if idx >= len(cl.Results) {
				return Val{}, fmt.Errorf("call %s has %d results", lbl, len(cl.Results))
			}
			return cl.Results[idx], nil
		}
		if idx >= len(cl.Args) {
			return Val{}, fmt.Errorf("call %s has %d arguments", lbl, len(cl.Args))
		}
		return cl.Args[idx], nil
	case "held", "wheld", "rheld", "unheld":
		if err := argN(1); err != nil {
			return Val{}, err
		}
		v, err := env.eval(n.Args[0])
		if err != nil {
			return Val{}, err
		}
		m := env.e.flat(env.st, env.reach, v)[0]
		cur := Select(env.e.heldArr(env.st), m, SInt)
		switch fname {
		case "held":
			return boolVal(Bin(SBool, ">=", cur, IntLit(1))), nil
		case "wheld":
			return boolVal(Eq(cur, IntLit(2))), nil
		case "rheld":
			return boolVal(Eq(cur, IntLit(1))), nil
		default:
			return boolVal(Eq(cur, IntLit(0))), nil
		}
	case "visited":
		// visited(k): key k was already produced by the map iteration of the enclosing loop
		if err := argN(1); err != nil {
			return Val{}, err
		}
		k, err := env.evalTerm(n.Args[0])
		if err != nil {
			return Val{}, err
		}
		name := env.e.visitedName(env.fr)
		if name == "" {
			return Val{}, fmt.Errorf("visited() outside a map-range loop")
		}
		return boolVal(Select(env.st.comp(name, ArraySort(k.Sort, SBool)), k, SBool)), nil
	case "bxor", "bor", "band":
		if err := argN(2); err != nil {
			return Val{}, err
		}
		a, err := env.evalTerm(n.Args[0])
		if err != nil {
			return Val{}, err
		}
		b, err := env.evalTerm(n.Args[1])
		if err != nil {
			return Val{}, err
		}
		return intVal(T(SInt, "(%s %s %s)", fname, a, b)), nil
	case "hasprefix", "lower", "strfold":
		var ts []Term
		for _, a := range n.Args {
			t, err := env.evalTerm(a)
			if err != nil {
				return Val{}, err
			}
			ts = append(ts, t)
		}
		switch {
		case fname == "hasprefix" && len(ts) == 2:
			return boolVal(T(SBool, "(str_hasprefix %s %s)", ts[0], ts[1])), nil
		case fname == "lower" && len(ts) == 1:
			return Val{T: types.Typ[types.String], L: []Term{T(SStr, "(str_lower %s)", ts[0])}}, nil
		case fname == "strfold" && len(ts) == 2:
			return boolVal(T(SBool, "(str_fold %s %s)", ts[0], ts[1])), nil
		}
		return Val{}, fmt.Errorf("bad arguments to %s", fname)
	case "isrwlock":
		if err := argN(1); err != nil {
			return Val{}, err
		}
		l, err := env.evalTerm(n.Args[0])
		if err != nil {
			return Val{}, err
		}
		return boolVal(T(SBool, "(= (rtype %s) %d)", l, env.e.P.typeTag(env.e.P.rwMutexType()))), nil
	case "norwlocks":
		// no reader/writer lock (entry or repository lock) is held; plain mutexes (process-wide refresh lock) may be
		env.e.declare("alloc0", SInt)
		tag := env.e.P.typeTag(env.e.P.rwMutexType())
		return boolVal(T(SBool, "(forall ((lk Int)) (! (=> (= (rtype lk) %d) (= (select %s lk) 0)) :pattern ((select %s lk))))", tag, env.e.heldArr(env.st), env.e.heldArr(env.st))), nil
	case "nolocks":
		return boolVal(Eq(env.e.heldArr(env.st), T(ArraySort(SInt, SInt), "((as const (Array Int Int)) 0)"))), nil
	case "sameLocks":
		o := env.old
		if o == nil {
			o = env.e.old
		}
		return boolVal(Eq(env.e.heldArr(env.st), env.e.heldArr(o))), nil
	case "typeis":
		if err := argN(2); err != nil {
			return Val{}, err
		}
		v, err := env.eval(n.Args[0])
		if err != nil {
			return Val{}, err
		}
		t, err := env.resolveType(n.Args[1])
		if err != nil {
			return Val{}, err
		}
		if len(v.L) != 2 {
			return Val{}, fmt.Errorf("typeis on non-interface")
		}
		return boolVal(Eq(v.L[0], IntLit(int64(env.e.P.typeTag(t))))), nil
	case "as":
		// as(x, *T): the payload of interface x viewed as a *T (meaningful only under typeis(x, *T))
		if err := argN(2); err != nil {
			return Val{}, err
		}
		v, err := env.eval(n.Args[0])
		if err != nil {
			return Val{}, err
		}
		t, err := env.resolveType(n.Args[1])
		if err != nil {
			return Val{}, err
		}
		if len(v.L) != 2 {
			return Val{}, fmt.Errorf("as() on non-interface")
		}
		if pt, isPtr := t.Underlying().(*types.Pointer); isPtr {
			if env.e.inQuant == 0 {
				env.e.assume(True, Implies(Eq(v.L[0], IntLit(int64(env.e.P.typeTag(t)))),
					Or(Eq(v.L[1], IntLit(0)), Eq(T(SInt, "(rtype %s)", v.L[1]), IntLit(int64(env.e.P.typeTag(pt.Elem())))))))
			}
			return Val{T: t, L: []Term{v.L[1]}}, nil
		}
		return env.e.load(env.st, &Addr{Kind: aHeap, Ref: v.L[1], Root: t, T: t}), nil
	case "content":
		// abstract value (byte sequence) of a slice's current contents
		if err := argN(1); err != nil {
			return Val{}, err
		}
		v, err := env.eval(n.Args[0])
		if err != nil {
			return Val{}, err
		}
		sl, ok := v.T.Underlying().(*types.Slice)
		if !ok || len(Layout(sl.Elem())) != 1 {
			return Val{}, fmt.Errorf("content() needs a slice of scalars")
		}
		name := "E." + typeID(sl.Elem()) + "."
		arr := env.st.comp(name, ArraySort(SInt, ArraySort(SInt, SInt)))
		return Val{T: types.Typ[types.String], L: []Term{T(SStr, "(bytes2str %s %s %s)", Select(arr, v.L[0], ArraySort(SInt, SInt)), v.L[1], v.L[2])}}, nil
	case "zeroed":
		// zeroed(p): the object p points to (p a pointer, or an interface holding a pointer) is all zero
		if err := argN(1); err != nil {
			return Val{}, err
		}
		v, err := env.eval(n.Args[0])
		if err != nil {
			return Val{}, err
		}
		t := v.T
		ref := Term{}
		if v.Dyn != nil {
			t = v.Dyn
			ref = v.L[1]
		} else if _, isIface := t.Underlying().(*types.Interface); isIface {
			env.e.note("zeroed() of an interface with unknown dynamic type treated as true")
			return boolVal(True), nil
		}
		pt, ok := t.Underlying().(*types.Pointer)
		if !ok {
			return Val{}, fmt.Errorf("zeroed() needs a pointer")
		}
		if ref.S == "" {
			ref = env.e.flat(env.st, env.reach, v)[0]
		}
		cur := env.e.load(env.st, &Addr{Kind: aHeap, Ref: ref, Root: pt.Elem(), T: pt.Elem()})
		z := zeroVal(pt.Elem())
		var cs []Term
		for i := range cur.L {
			cs = append(cs, Eq(cur.L[i], z.L[i]))
		}
		return boolVal(And(cs...)), nil
	case "onlyArrayChanged":
		// onlyArrayChanged(s): among the backing arrays of s's element type that existed before the call,
		// only the one s points to may have changed (s is normally old(<slice>)).
		if err := argN(1); err != nil {
			return Val{}, err
		}
		v, err := env.eval(n.Args[0])
		if err != nil {
			return Val{}, err
		}
		sl, ok := v.T.Underlying().(*types.Slice)
		if !ok {
			return Val{}, fmt.Errorf("onlyArrayChanged() needs a slice")
		}
		oldSt := env.old
		if oldSt == nil {
			oldSt = env.e.old
		}
		bound := "alloc0"
		if env.callSite {
			bound = env.e.wmCall.S
		}
		env.e.declare("alloc0", SInt)
		var cs []Term
		for _, lf := range Layout(sl.Elem()) {
			name := "E." + typeID(sl.Elem()) + "." + lf.Path
			sort := ArraySort(SInt, ArraySort(SInt, lf.Sort))
			cur := env.st.comp(name, sort)
			old := oldSt.comp(name, sort)
			if cur.S == old.S {
				continue
			}
			cs = append(cs, T(SBool, "(forall ((oa Int)) (! (=> (and (<= oa %s) (not (= oa %s))) (= (select %s oa) (select %s oa))) :pattern ((select %s oa))))", bound, v.L[0], cur, old, cur))
		}
		return boolVal(And(cs...)), nil
	case "elem":
		// elem(s, a): element at ABSOLUTE index a of the backing array of slice s (no offset arithmetic: good trigger)
		if err := argN(2); err != nil {
			return Val{}, err
		}
		sv, err := env.eval(n.Args[0])
		if err != nil {
			return Val{}, err
		}
		av, err := env.evalTerm(n.Args[1])
		if err != nil {
			return Val{}, err
		}
		sl, ok := sv.T.Underlying().(*types.Slice)
		if !ok {
			return Val{}, fmt.Errorf("elem() needs a slice")
		}
		return env.e.load(env.st, &Addr{Kind: aElem, Ref: sv.L[0], Idx: av, Root: sl.Elem(), T: sl.Elem()}), nil
	case "offset":
		if err := argN(1); err != nil {
			return Val{}, err
		}
		sv, err := env.eval(n.Args[0])
		if err != nil {
			return Val{}, err
		}
		if len(sv.L) != 4 {
			return Val{}, fmt.Errorf("offset() needs a slice")
		}
		return intVal(sv.L[1]), nil
	case "samearray":
		if err := argN(2); err != nil {
			return Val{}, err
		}
		a, err := env.eval(n.Args[0])
		if err != nil {
			return Val{}, err
		}
		b, err := env.eval(n.Args[1])
		if err != nil {
			return Val{}, err
		}
		if len(a.L) != 4 || len(b.L) != 4 {
			return Val{}, fmt.Errorf("samearray() needs two slices")
		}
		return boolVal(Eq(a.L[0], b.L[0])), nil
	case "payload":
		// the reference an interface value carries
		if err := argN(1); err != nil {
			return Val{}, err
		}
		v, err := env.eval(n.Args[0])
		if err != nil {
			return Val{}, err
		}
		if len(v.L) != 2 {
			return Val{}, fmt.Errorf("payload() of a non-interface")
		}
		return intVal(v.L[1]), nil
	case "fresh":
		if err := argN(1); err != nil {
			return Val{}, err
		}
		fv, err := env.eval(n.Args[0])
		if err != nil {
			return Val{}, err
		}
		var v Term
		if _, isSl := fv.T.Underlying().(*types.Slice); isSl && len(fv.L) == 4 {
			v = fv.L[0] // a slice is fresh when its backing array is
		} else if fv.Addr != nil {
			v = env.e.reify(env.st, env.reach, fv)
		} else if len(fv.L) == 1 {
			v = fv.L[0]
		} else {
			return Val{}, fmt.Errorf("fresh() of a composite value")
		}
		env.e.declare("alloc0", SInt)
		return boolVal(T(SBool, "(> %s alloc0)", v)), nil
	case "big":
		if err := argN(1); err != nil {
			return Val{}, err
		}
		v, err := env.eval(n.Args[0])
		if err != nil {
			return Val{}, err
		}
		if _, ok := v.T.Underlying().(*types.Pointer); ok {
			v = env.e.load(env.st, env.e.ptrAddr(v))
		}
		return intVal(v.scalar()), nil
	case "int", "int64", "uint64", "uint8", "ref":
		if err := argN(1); err != nil {
			return Val{}, err
		}
		t, err := env.evalTerm(n.Args[0])
		return intVal(t), err
	case "ite":
		if err := argN(3); err != nil {
			return Val{}, err
		}
		c, err := env.evalBool(n.Args[0])
		if err != nil {
			return Val{}, err
		}
		a, err := env.eval(n.Args[1])
		if err != nil {
			return Val{}, err
		}
		b, err := env.eval(n.Args[2])
		if err != nil {
			return Val{}, err
		}
		fa, fb := env.e.flat(env.st, env.reach, a), env.e.flat(env.st, env.reach, b)
		if len(fa) != len(fb) {
			return Val{}, fmt.Errorf("ite branches differ in shape")
		}
		out := Val{T: a.T}
		for i := range fa {
			out.L = append(out.L, Ite(c, fa[i], fb[i]))
		}
		return out, nil
	}
	// spec functions
	if sf, ok := env.e.P.Contracts.Specs[fname]; ok {
		var args []Val
		for _, a := range n.Args {
			v, err := env.eval(a)
			if err != nil {
				return Val{}, err
			}
			args = append(args, v)
		}
		if len(args) != len(sf.Params) && sf.Body != nil {
			return Val{}, fmt.Errorf("spec function %s expects %d arguments", fname, len(sf.Params))
		}
		if sf.Body != nil {
			c := *env
			c.bind = map[string]Val{}
			for k, v := range env.bind {
				c.bind[k] = v
			}
			c.qvars = nil
			for i, p := range sf.Params {
				c.bind[p.Name] = args[i]
			}
			c.fr = nil
			if sf.Pkg != "" {
				c.pkg = sf.Pkg
			}
			return c.eval(sf.Body)
		}
		var sorts []Sort
		var ts []string
		for _, a := range args {
			for _, l := range env.e.flat(env.st, env.reach, a) {
				sorts = append(sorts, l.Sort)
				ts = append(ts, l.S)
			}
		}
		rs := sortOfTypeName(sf.Result)
		fn := env.e.declareFun(fmt.Sprintf("spec.%s/%d", fname, len(sorts)), sorts, rs)
		var rt types.Type = untypedInt
		if rs == SBool {
			rt = untypedBool
		} else if rs == SStr {
			rt = types.Typ[types.String]
		}
		if len(ts) == 0 {
			return Val{T: rt, L: []Term{{fn, rs}}}, nil
		}
		return Val{T: rt, L: []Term{T(rs, "(%s %s)", fn, strings.Join(ts, " "))}}, nil
	}
	return Val{}, fmt.Errorf("unknown function %s in contract", n.Fun.exprString())
}

func (env *Env) resolveType(x Expr) (types.Type, error) {
	ptr := false
	if u, ok := x.(EUnary); ok && u.Op == "*" {
		ptr = true
		x = u.X
	}
	var pkg, name string
	switch n := x.(type) {
	case EIdent:
		if bt := types.Universe.Lookup(n.Name); bt != nil {
			if tn, ok := bt.(*types.TypeName); ok {
				if ptr {
					return types.NewPointer(tn.Type()), nil
				}
				return tn.Type(), nil
			}
		}
		pkg, name = env.pkg, n.Name
	case ESel:
		if id, ok := n.X.(EIdent); ok {
			pkg, name = id.Name, n.Name
		}
	}
	for _, tp := range env.e.P.pkgsByName[pkg] {
		if obj, ok := tp.Scope().Lookup(name).(*types.TypeName); ok {
			if ptr {
				return types.NewPointer(obj.Type()), nil
			}
			return obj.Type(), nil
		}
	}
	return nil, fmt.Errorf("unknown type %s", x.exprString())
}

// visitedName: the ghost visited-set of the (single) map range of the function under verification.
func (e *Engine) visitedName(fr *Frame) string {
	fn := e.Fn
	if fr != nil {
		fn = fr.fn
	}
	for _, b := range fn.Blocks {
		for _, in := range b.Instrs {
			if r, ok := in.(*ssa.Range); ok {
				if _, isMap := r.X.Type().Underlying().(*types.Map); isMap {
					return "V.visited." + r.Name()
				}
			}
		}
	}
	return ""
}

func (e *Engine) labelCall(lbl string) *ssa.CallCommon {
	name, ord := lbl, 1
	if i := strings.Index(lbl, "#"); i > 0 {
		name = lbl[:i]
		ord, _ = strconv.Atoi(lbl[i+1:])
	}
	for c, k := range e.P.callOrdinals[e.Fn] {
		id, _ := e.P.calleeID(c)
		if labelName(id) == name && k == ord {
			return c
		}
	}
	return nil
}

func (e *Engine) knownLabel(lbl string) bool {
	name := lbl
	if i := strings.Index(lbl, "#"); i > 0 {
		name = lbl[:i]
	}
	for c := range e.P.callOrdinals[e.Fn] {
		id, _ := e.P.calleeID(c)
		if labelName(id) == name {
			return true
		}
	}
	return false
}

// missingSiteError: res()/arg() of a call site that the function does not contain.
type missingSiteError struct{ label, fn string }

func (m *missingSiteError) Error() string { return "no call site " + m.label + " in " + m.fn }

func isComparison(op string) bool {
	switch op {
	case "==", "!=", "<", "<=", ">", ">=":
		return true
	}
	return false
}
