package main

// Replay of solver counterexamples against the real code.
//
// For a refuted (sat) obligation of a replayable class the model is turned into concrete Go arguments for the
// function under verification, an in-package test that calls the real function with them is injected with
// `go test -overlay` (nothing is written to /repo), and the failure counts as replayed when the real code panics
// (or, for allocation obligations, allocates beyond the bound). Classes: safety obligations (nil, index, slice,
// makelen, typeassert, divzero, explicit panic, alloc) and violated callee preconditions, in functions whose
// parameters can be built from the model: integers, booleans, strings, byte slices, structs and pointers to them,
// math/big integers, time.Time, *bufio.Reader / asn1parser.Asn1Reader fed from the ghost stream, *zap.Logger.
// Anything else (maps with contents, function values, files, foreign unexported state) makes the builder give up,
// and the VIOLATION line then ends with no-failing-input-found.

import (
	"context"
	"encoding/json"
	"fmt"
	"go/types"
	"math/big"
	"os"
	"os/exec"
	"path/filepath"
	"sort"
	"strings"
	"time"
)

var replayKinds = map[string]bool{"nil": true, "index": true, "slice": true, "makelen": true, "typeassert": true, "divzero": true,
	"panic": true, "alloc": true, "pre": true, "mapnilwrite": true, "shift": true}

const replayElems = 48    // elements requested per slice
const replayStream = 768  // bytes requested per stream
const replayAllocBound = 64 << 20

type replayBuilder struct {
	e       *Engine
	p       *Program
	st      *State
	collect bool
	want    []Term
	seen    map[string]int
	vals    []string
	imports map[string]string
	pkg     *types.Package
	bad     string
	stmts   []string
	nvar    int
	ptrVars map[string]string // "type|ref" -> variable
	litVal  map[string]string // model value of a Str literal constant -> Go literal
	depth   int
}

func (b *replayBuilder) fail(format string, a ...interface{}) {
	if b.bad == "" {
		b.bad = fmt.Sprintf(format, a...)
	}
}

// get: the model value of a term (collect mode: registers the term and returns "").
func (b *replayBuilder) get(t Term) string {
	if i, ok := b.seen[t.S]; ok {
		if b.collect {
			return ""
		}
		if i < len(b.vals) {
			return b.vals[i]
		}
		return ""
	}
	if !b.collect {
		return ""
	}
	b.seen[t.S] = len(b.want)
	b.want = append(b.want, t)
	return ""
}

func parseSMTInt(s string) (*big.Int, bool) {
	s = strings.TrimSpace(s)
	neg := false
	if strings.HasPrefix(s, "(-") {
		neg = true
		s = strings.TrimSpace(strings.TrimSuffix(strings.TrimPrefix(s, "(-"), ")"))
	}
	v, ok := new(big.Int).SetString(s, 10)
	if !ok {
		return big.NewInt(0), false
	}
	if neg {
		v.Neg(v)
	}
	return v, true
}

func (b *replayBuilder) intv(t Term) *big.Int {
	s := b.get(t)
	if b.collect {
		return big.NewInt(1)
	}
	v, ok := parseSMTInt(s)
	if !ok {
		return big.NewInt(0)
	}
	return v
}

func (b *replayBuilder) boolv(t Term) bool {
	s := b.get(t)
	return s == "true"
}

func (b *replayBuilder) qualifier(pk *types.Package) string {
	if pk == nil || pk == b.pkg {
		return ""
	}
	b.imports[pk.Path()] = pk.Name()
	return pk.Name()
}

func (b *replayBuilder) typeStr(t types.Type) string {
	if !b.nameable(t) {
		b.fail("type %s cannot be named from package %s", t.String(), b.pkg.Name())
	}
	return types.TypeString(t, b.qualifier)
}

// nameable: every named type inside t is exported or belongs to the package under test.
func (b *replayBuilder) nameable(t types.Type) bool {
	switch u := t.(type) {
	case *types.Named:
		o := u.Obj()
		return o.Pkg() == nil || o.Pkg() == b.pkg || o.Exported()
	case *types.Pointer:
		return b.nameable(u.Elem())
	case *types.Slice:
		return b.nameable(u.Elem())
	case *types.Array:
		return b.nameable(u.Elem())
	case *types.Map:
		return b.nameable(u.Key()) && b.nameable(u.Elem())
	}
	return true
}

func (b *replayBuilder) newVar() string {
	b.nvar++
	return fmt.Sprintf("v%d", b.nvar)
}

func wrapToType(v *big.Int, t types.Type) *big.Int {
	bt, ok := t.Underlying().(*types.Basic)
	if !ok {
		return v
	}
	bits, signed := 64, true
	switch bt.Kind() {
	case types.Int8:
		bits = 8
	case types.Int16:
		bits = 16
	case types.Int32:
		bits = 32
	case types.Uint8:
		bits, signed = 8, false
	case types.Uint16:
		bits, signed = 16, false
	case types.Uint32:
		bits, signed = 32, false
	case types.Uint, types.Uint64, types.Uintptr:
		signed = false
	}
	m := new(big.Int).Lsh(big.NewInt(1), uint(bits))
	r := new(big.Int).Mod(v, m)
	if signed && r.Cmp(new(big.Int).Rsh(m, 1)) >= 0 {
		r.Sub(r, m)
	}
	return r
}

// heapLeaves: the entry-state leaves of an object of type t at reference ref.
func (b *replayBuilder) heapLeaves(t types.Type, ref Term) []Term {
	var out []Term
	for _, lf := range Layout(t) {
		arr := b.st.comp("H."+typeID(t)+"."+lf.Path, ArraySort(SInt, lf.Sort))
		out = append(out, Select(arr, ref, lf.Sort))
	}
	return out
}

func (b *replayBuilder) elemLeaves(t types.Type, arr Term, idx Term) []Term {
	var out []Term
	for _, lf := range Layout(t) {
		a := b.st.comp("E."+typeID(t)+"."+lf.Path, ArraySort(SInt, ArraySort(SInt, lf.Sort)))
		out = append(out, Select(Select(a, arr, ArraySort(SInt, lf.Sort)), idx, lf.Sort))
	}
	return out
}

// value: a Go expression of type t for the leaves L.
func (b *replayBuilder) value(t types.Type, L []Term) string {
	b.depth++
	defer func() { b.depth-- }()
	if b.depth > 6 {
		if !b.collect {
			b.fail("value nesting too deep")
		}
		return "nil"
	}
	if len(L) != len(Layout(t)) {
		b.fail("layout mismatch for %s", t.String())
		return "nil"
	}
	if isNamed(t, "math/big", "Int") {
		v := b.intv(L[0])
		b.imports["math/big"] = "big"
		return fmt.Sprintf("(*govcBig(%q))", v.String())
	}
	if isNamed(t, "time", "Time") {
		v := b.intv(L[0])
		b.imports["time"] = "time"
		if v.Sign() == 0 {
			return "time.Time{}"
		}
		return fmt.Sprintf("time.Unix(0, %s)", wrapToType(v, types.Typ[types.Int64]).String())
	}
	if k, ok := opaqueKind(t); ok && k == kOpaque {
		return b.typeStr(t) + "{}"
	}
	switch u := t.Underlying().(type) {
	case *types.Basic:
		switch {
		case u.Info()&types.IsBoolean != 0:
			return fmt.Sprintf("%s(%v)", b.typeStr(t), b.boolv(L[0]))
		case u.Info()&types.IsInteger != 0:
			return fmt.Sprintf("%s(%s)", b.typeStr(t), wrapToType(b.intv(L[0]), t).String())
		case u.Info()&types.IsString != 0:
			return fmt.Sprintf("%s(%s)", b.typeStr(t), b.stringv(L[0]))
		case u.Info()&types.IsFloat != 0:
			return b.typeStr(t) + "(0)"
		}
		b.fail("basic type %s", t.String())
		return "0"
	case *types.Pointer:
		return b.pointer(t, u, L[0])
	case *types.Slice:
		return b.slice(t, u, L)
	case *types.Interface:
		return b.iface(t, u, L)
	case *types.Struct:
		var parts []string
		for i := 0; i < u.NumFields(); i++ {
			f := u.Field(i)
			off, n := fieldRange(t, i)
			if !f.Exported() && f.Pkg() != b.pkg {
				// foreign unexported state cannot be set; evaluate nothing, leave zero
				continue
			}
			parts = append(parts, f.Name()+": "+b.value(f.Type(), L[off:off+n]))
		}
		return b.typeStr(t) + "{" + strings.Join(parts, ", ") + "}"
	case *types.Map:
		if !b.collect && b.intv(L[0]).Sign() == 0 {
			return "(" + b.typeStr(t) + ")(nil)"
		}
		return b.typeStr(t) + "{}"
	case *types.Signature, *types.Chan:
		if !b.collect && b.intv(L[0]).Sign() != 0 {
			b.fail("non-nil %s value", t.String())
		}
		return "nil"
	case *types.Array:
		return b.typeStr(t) + "{}"
	}
	b.fail("type %s", t.String())
	return "nil"
}

func (b *replayBuilder) stringv(t Term) string {
	v := b.get(t)
	n := b.intv(T(SInt, "(strlen %s)", t))
	if b.collect {
		return `""`
	}
	if lit, ok := b.litVal[v]; ok {
		return fmt.Sprintf("%q", lit)
	}
	k := int(n.Int64())
	if n.Sign() < 0 || !n.IsInt64() || k > 256 {
		k = 256
	}
	// a string of the model's length that differs from every literal the function compares with
	return fmt.Sprintf("%q", strings.Repeat("~", k))
}

func (b *replayBuilder) pointer(t types.Type, u *types.Pointer, ref Term) string {
	r := b.intv(ref)
	if !b.collect && r.Sign() == 0 {
		return "(" + b.typeStr(t) + ")(nil)"
	}
	el := u.Elem()
	switch {
	case isNamed(el, "bufio", "Reader"):
		return b.reader(ref)
	case isNamed(el, "go.uber.org/zap", "Logger"):
		b.imports["go.uber.org/zap"] = "zap"
		return "zap.NewNop()"
	case isNamed(el, "math/big", "Int"):
		arr := b.st.comp("H."+typeID(el)+".", ArraySort(SInt, SInt))
		v := b.intv(Select(arr, ref, SInt))
		b.imports["math/big"] = "big"
		return fmt.Sprintf("govcBig(%q)", v.String())
	case isNamed(el, "os", "File"), isNamed(el, "net/http", "Client"), isNamed(el, "net/http", "Response"), isNamed(el, "github.com/syndtr/goleveldb/leveldb", "DB"):
		if !b.collect {
			b.fail("cannot build a %s", el.String())
		}
		return "nil"
	}
	if _, ok := el.Underlying().(*types.Struct); !ok {
		if _, isBasic := el.Underlying().(*types.Basic); !isBasic {
			if _, isSl := el.Underlying().(*types.Slice); !isSl {
				b.fail("pointer to %s", el.String())
				return "nil"
			}
		}
	}
	key := typeID(el) + "|" + r.String()
	if !b.collect {
		if v, ok := b.ptrVars[key]; ok {
			return v
		}
	}
	v := b.newVar()
	if !b.collect {
		b.ptrVars[key] = v
		b.stmts = append(b.stmts, fmt.Sprintf("%s := new(%s)", v, b.typeStr(el)))
	}
	val := b.value(el, b.heapLeaves(el, ref))
	if !b.collect {
		b.stmts = append(b.stmts, fmt.Sprintf("*%s = %s", v, val))
	}
	return v
}

func (b *replayBuilder) reader(ref Term) string {
	b.imports["bufio"] = "bufio"
	b.imports["bytes"] = "bytes"
	pos := b.intv(Select(b.st.comp("X.spos", ArraySort(SInt, SInt)), ref, SInt))
	size := b.intv(Select(b.st.comp("X.ssize", ArraySort(SInt, SInt)), ref, SInt))
	data := Select(b.st.comp("X.sdata", ArraySort(SInt, ArraySort(SInt, SInt))), ref, ArraySort(SInt, SInt))
	posT := Select(b.st.comp("X.spos", ArraySort(SInt, SInt)), ref, SInt)
	n := replayStream
	if !b.collect {
		rem := new(big.Int).Sub(size, pos)
		if rem.Sign() < 0 {
			rem = big.NewInt(0)
		}
		if rem.IsInt64() && rem.Int64() < int64(n) {
			n = int(rem.Int64())
		}
	}
	var bs []string
	for i := 0; i < n; i++ {
		v := b.intv(Select(data, T(SInt, "(+ %s %d)", posT, i), SInt))
		bs = append(bs, fmt.Sprint(new(big.Int).And(v, big.NewInt(255)).Int64()))
	}
	return "bufio.NewReader(bytes.NewReader([]byte{" + strings.Join(bs, ", ") + "}))"
}

func (b *replayBuilder) slice(t types.Type, u *types.Slice, L []Term) string {
	arr, off, ln := L[0], L[1], L[2]
	a := b.intv(arr)
	n := b.intv(ln)
	if !b.collect && a.Sign() == 0 {
		return "(" + b.typeStr(t) + ")(nil)"
	}
	cnt := replayElems
	if _, isByte := u.Elem().Underlying().(*types.Basic); !isByte {
		cnt = 4
	}
	total := cnt
	if !b.collect {
		if n.Sign() < 0 || !n.IsInt64() || n.Int64() > 1<<20 {
			b.fail("slice of length %s", n.String())
			return "nil"
		}
		total = int(n.Int64())
		if total < cnt {
			cnt = total
		}
	}
	var parts []string
	for i := 0; i < cnt; i++ {
		parts = append(parts, b.value(u.Elem(), b.elemLeaves(u.Elem(), arr, T(SInt, "(+ %s %d)", off, i))))
	}
	lit := b.typeStr(t) + "{" + strings.Join(parts, ", ") + "}"
	if b.collect || total == cnt {
		return lit
	}
	return fmt.Sprintf("append(%s, make(%s, %d)...)", lit, b.typeStr(t), total-cnt)
}

func (b *replayBuilder) iface(t types.Type, u *types.Interface, L []Term) string {
	tag, ref := L[0], L[1]
	tv := b.intv(tag)
	if b.collect {
		// request the state of every candidate dynamic type
		var tags []int
		for k := range b.p.tagTypes {
			tags = append(tags, k)
		}
		sort.Ints(tags)
		n := 0
		for _, k := range tags {
			tt := b.p.tagTypes[k]
			if u.NumMethods() == 0 || !types.Implements(tt, u) || n >= 8 {
				continue
			}
			if _, isPtr := tt.Underlying().(*types.Pointer); isPtr {
				n++
				b.value(tt, []Term{ref})
			}
		}
		return "nil"
	}
	if tv.Sign() == 0 {
		return "nil"
	}
	tt := b.p.tagTypes[int(tv.Int64())]
	if tt == nil {
		b.fail("interface %s with unknown dynamic type tag %s", t.String(), tv.String())
		return "nil"
	}
	if u.NumMethods() == 0 || !types.Implements(tt, u) {
		b.fail("interface %s holding %s", t.String(), tt.String())
		return "nil"
	}
	if _, isPtr := tt.Underlying().(*types.Pointer); isPtr {
		return b.value(tt, []Term{ref})
	}
	b.fail("interface %s holding non-pointer %s", t.String(), tt.String())
	return "nil"
}

// buildReplay returns the test source and the package directory, or "" when the function is outside the class.
func buildReplay(p *Program, r *FuncResult, o *Obligation) (src, pkgDir, why string) {
	e := r.Engine
	if e == nil || e.Fn == nil || e.Fn.Pkg == nil || e.Fn.Parent() != nil {
		return "", "", "not a package-level function or method"
	}
	fn := e.Fn
	b := &replayBuilder{e: e, p: p, st: e.old, seen: map[string]int{}, imports: map[string]string{}, pkg: fn.Pkg.Pkg,
		ptrVars: map[string]string{}, litVal: map[string]string{}}
	if b.st == nil {
		return "", "", "no entry state"
	}
	gen := func() (string, []string) {
		b.stmts, b.nvar, b.depth = nil, 0, 0
		var args []string
		for _, prm := range fn.Params {
			v, ok := e.params[prm.Name()]
			if !ok {
				b.fail("parameter %s", prm.Name())
				return "", nil
			}
			args = append(args, b.value(prm.Type(), v.L))
		}
		// string literals of the function: their model values identify strings that must equal a literal
		var lits []string
		for s := range e.strlits {
			lits = append(lits, s)
		}
		sort.Strings(lits)
		for _, s := range lits {
			v := b.get(Term{e.strlits[s], SStr})
			if !b.collect && v != "" {
				b.litVal[v] = s
			}
		}
		call := ""
		if fn.Signature.Recv() != nil {
			if len(args) == 0 {
				b.fail("method without receiver value")
				return "", nil
			}
			call = "(" + args[0] + ")." + fn.Name() + "(" + strings.Join(args[1:], ", ") + ")"
		} else {
			call = fn.Name() + "(" + strings.Join(args, ", ") + ")"
		}
		return call, b.stmts
	}
	b.collect = true
	gen()
	if b.bad != "" {
		return "", "", b.bad
	}
	if len(b.want) > 6000 {
		return "", "", "too many model values needed"
	}
	// one solver run that also evaluates every wanted term (fresh constants avoid depending on how the solver prints terms)
	q := e.BuildQuery(o)
	i := strings.LastIndex(q, "(check-sat)")
	if i < 0 {
		return "", "", "query without check-sat"
	}
	var sb strings.Builder
	sb.WriteString(q[:i])
	var names []string
	for k, t := range b.want {
		n := fmt.Sprintf("govc!rv!%d", k)
		names = append(names, n)
		sb.WriteString(fmt.Sprintf("(declare-const %s %s)\n(assert (= %s %s))\n", n, t.Sort, n, t.S))
	}
	sb.WriteString("(check-sat)\n(get-value (" + strings.Join(names, " ") + "))\n")
	dir := tmpOutDir()
	defer os.RemoveAll(dir)
	os.MkdirAll(dir, 0o755)
	file := filepath.Join(dir, "replay.smt2")
	os.WriteFile(file, []byte(sb.String()), 0o644)
	res := runSolver(context.Background(), solvers[0], file, 30*time.Second)
	if res.Status != "sat" {
		res = runSolver(context.Background(), solvers[1], file, 30*time.Second)
	}
	if res.Status != "sat" {
		return "", "", "the solver did not reproduce the model with the evaluation terms (" + res.Status + ")"
	}
	b.vals = make([]string, len(b.want))
	for k := range b.want {
		b.vals[k] = res.Model[fmt.Sprintf("govc!rv!%d", k)]
	}
	// literal model values first (the order of evaluation inside gen() needs them)
	for s, c := range e.strlits {
		if k, ok := b.seen[c]; ok && k < len(b.vals) {
			b.litVal[b.vals[k]] = s
		}
	}
	b.collect = false
	b.imports = map[string]string{}
	call, stmts := gen()
	if b.bad != "" {
		return "", "", b.bad
	}
	b.imports["fmt"] = "fmt"
	b.imports["runtime"] = "runtime"
	b.imports["testing"] = "testing"
	var imps []string
	for path, name := range b.imports {
		if filepath.Base(path) == name {
			imps = append(imps, fmt.Sprintf("\t%q", path))
		} else {
			imps = append(imps, fmt.Sprintf("\t%s %q", name, path))
		}
	}
	sort.Strings(imps)
	var t strings.Builder
	t.WriteString("// generated by govc from the solver's counterexample for " + o.ID + "\npackage " + fn.Pkg.Pkg.Name() + "\n\nimport (\n" + strings.Join(imps, "\n") + "\n)\n\n")
	if _, ok := b.imports["math/big"]; ok {
		t.WriteString("func govcBig(s string) *big.Int { v, _ := new(big.Int).SetString(s, 10); return v }\n\n")
	}
	t.WriteString("func TestGovcReplay(t *testing.T) {\n\tdefer func() {\n\t\tif r := recover(); r != nil {\n\t\t\tfmt.Printf(\"GOVC-REPLAY PANIC: %v\\n\", r)\n\t\t}\n\t}()\n")
	for _, s := range stmts {
		t.WriteString("\t" + s + "\n")
	}
	t.WriteString("\tvar m0, m1 runtime.MemStats\n\truntime.ReadMemStats(&m0)\n\t" + call + "\n\truntime.ReadMemStats(&m1)\n\tfmt.Printf(\"GOVC-REPLAY RETURNED alloc=%d\\n\", m1.TotalAlloc-m0.TotalAlloc)\n}\n")
	rel, err := filepath.Rel(repoDir(), filepath.Dir(p.absFile(r.File)))
	if err != nil {
		return "", "", err.Error()
	}
	return t.String(), rel, ""
}

func (p *Program) absFile(f string) string {
	if filepath.IsAbs(f) {
		return f
	}
	return filepath.Join(repoDir(), f)
}

// runReplayTest injects the test into the package with -overlay and runs it.
func runReplayTest(pkgDir, src string) (string, bool, bool) {
	dir := tmpOutDir()
	defer os.RemoveAll(dir)
	os.MkdirAll(dir, 0o755)
	tf := filepath.Join(dir, "zz_govc_replay_test.go")
	os.WriteFile(tf, []byte(src), 0o644)
	target := filepath.Join(repoDir(), pkgDir, "zz_govc_replay_test.go")
	ov, _ := json.Marshal(map[string]interface{}{"Replace": map[string]string{target: tf}})
	of := filepath.Join(dir, "overlay.json")
	os.WriteFile(of, ov, 0o644)
	ctx, cancel := context.WithTimeout(context.Background(), 240*time.Second)
	defer cancel()
	cmd := exec.CommandContext(ctx, "go", "test", "-overlay", of, "-vet=off", "-count=1", "-timeout", "60s", "-run", "^TestGovcReplay$", "-v", "./"+pkgDir)
	cmd.Dir = repoDir()
	cmd.Env = append(os.Environ(), "GOFLAGS=-mod=mod", "GOPROXY=off", "GOSUMDB=off", "GOTOOLCHAIN=local")
	out, _ := cmd.CombinedOutput()
	txt := string(out)
	ran := strings.Contains(txt, "GOVC-REPLAY")
	return truncate(txt, 6000), ran, strings.Contains(txt, "GOVC-REPLAY PANIC")
}

func replayAlloc(out string) int64 {
	i := strings.Index(out, "GOVC-REPLAY RETURNED alloc=")
	if i < 0 {
		return 0
	}
	var n int64
	fmt.Sscanf(out[i:], "GOVC-REPLAY RETURNED alloc=%d", &n)
	return n
}
