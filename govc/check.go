package main

import (
	"regexp"
	"encoding/json"
	"flag"
	"fmt"
	"os"
	"path/filepath"
	"sort"
	"strconv"
	"strings"
	"time"
)

type PropConfig struct {
	ID         string   `json:"id"`
	SweepFiles []string `json:"sweep_files"` // zero-annotation safety sweep: every function in these files
	SweepKinds []string `json:"sweep_kinds"` // obligation kinds the sweep contributes (empty = all safety kinds)
	SharedSweepFiles []string `json:"shared_state_sweep_files"` // files whose functions are checked for unprotected package-level state only
	Alloc      bool     `json:"alloc"`       // emit allocation-bound obligations in sweep files
	Level      string   `json:"level"`
	Bounded    []string `json:"bounded_standins"`
	Undecided  []string `json:"not_decided"`
	Unproved   []string `json:"unproved_obligations"` // obligations never discharged by this machinery (stated, not claimed): reported UNDECIDED
}

type KnownFinding struct {
	Status     string `json:"status"` // known | fixed
	Property   string   `json:"property,omitempty"`
	Properties []string `json:"properties,omitempty"`
	Obligation string `json:"obligation"`
	What       string `json:"what"`
	Commit     string `json:"commit,omitempty"`
	Finding    string `json:"finding,omitempty"`
}

type KnownFile struct {
	Findings []KnownFinding `json:"findings"`
}

func loadProps() map[string]*PropConfig {
	out := map[string]*PropConfig{}
	data, err := os.ReadFile(filepath.Join(verifDir(), "props.json"))
	if err != nil {
		return out
	}
	var l []*PropConfig
	if err := json.Unmarshal(data, &l); err != nil {
		fmt.Fprintln(os.Stderr, "props.json:", err)
		return out
	}
	for _, p := range l {
		out[p.ID] = p
	}
	return out
}

func loadKnown() []KnownFinding {
	data, err := os.ReadFile(filepath.Join(verifDir(), "known_findings.json"))
	if err != nil {
		return nil
	}
	var k KnownFile
	if err := json.Unmarshal(data, &k); err != nil {
		fmt.Fprintln(os.Stderr, "known_findings.json:", err)
	}
	return k.Findings
}

func loadBaseline(prop string) map[string]bool {
	out := map[string]bool{}
	data, err := os.ReadFile(filepath.Join(verifDir(), "baseline", prop+".txt"))
	if err != nil {
		return nil
	}
	for _, l := range strings.Split(string(data), "\n") {
		if l = strings.TrimSpace(l); l != "" && !strings.HasPrefix(l, "!") {
			out[l] = true
		}
	}
	return out
}

// loadBaselineUnknown: the calls to functions without a contract that each function of the recorded tree makes
// (baseline lines "!uncontracted <function> <callee>").
func loadBaselineUnknown(prop string) map[string]bool {
	out := map[string]bool{}
	data, err := os.ReadFile(filepath.Join(verifDir(), "baseline", prop+".txt"))
	if err != nil {
		return nil
	}
	for _, l := range strings.Split(string(data), "\n") {
		if f := strings.Fields(l); len(f) >= 3 && f[0] == "!uncontracted" {
			out[f[1]+" "+strings.Join(f[2:], " ")] = true
		}
	}
	return out
}

var pathSuffixRe = regexp.MustCompile(`(@return\d+|\.back\d+|~\d+|#\d+$)`)

// clauseKey: the identity of the contract clause (or rule) behind an obligation, without the path it was
// generated on (which return, which back edge, which call-site ordinal).
func clauseKey(id string) string {
	prev := ""
	for prev != id {
		prev = id
		id = pathSuffixRe.ReplaceAllString(id, "")
	}
	return id
}

// siteKinds: obligations that belong to one syntactic site of the code rather than to a contract clause.
var siteKinds = map[string]bool{"nil": true, "index": true, "slice": true, "makelen": true, "mapnilwrite": true, "typeassert": true,
	"divzero": true, "shift": true, "panic": true, "alloc": true}

func hasProp(l []string, p string) bool {
	for _, x := range l {
		if x == p {
			return true
		}
	}
	return false
}

// selectFunctions: the functions whose obligations (partly) serve the property.
func (p *Program) selectFunctions(prop string, pc *PropConfig) (ids []string, sweep map[string]bool) {
	set := map[string]bool{}
	sweep = map[string]bool{}
	for id, fc := range p.Contracts.Funcs {
		if fc.IsSpec {
			continue
		}
		mentions := hasProp(fc.Props, prop)
		for _, c := range fc.Ensures {
			if hasProp(c.Props, prop) {
				mentions = true
			}
		}
		for _, c := range fc.Requires {
			if hasProp(c.Props, prop) {
				mentions = true
			}
		}
		for _, lc := range fc.Loops {
			for _, cl := range [][]*Clause{lc.Invariants, lc.BodyEnsures, lc.IterEnsures} {
				for _, c := range cl {
					if hasProp(c.Props, prop) {
						mentions = true
					}
				}
			}
		}
		if !mentions {
			continue
		}
		if _, ok := p.Funcs[id]; ok {
			set[id] = true
		} else if p.ifaceMethod(id) != nil {
			// interface contract: every implementation must refine it
			for fid, fn := range p.Funcs {
				for _, iid := range p.ifaceOf(fn) {
					if iid == id {
						set[fid] = true
					}
				}
			}
		}
	}
	// global invariants are established by the package initialiser
	for _, gi := range p.Contracts.Globals {
		if gi.Clause != nil && hasProp(gi.Clause.Props, prop) {
			for id := range p.Funcs {
				if strings.HasSuffix(id, "/"+gi.Pkg+".init") || id == gi.Pkg+".init" {
					set[id] = true
				}
			}
		}
	}
	for _, fm := range p.Contracts.Forbids {
		if hasProp(fm.Props, prop) {
			for id := range p.Funcs {
				if id == fm.Pkg+".init" {
					set[id] = true
				}
			}
		}
	}
	if pc != nil {
		for id, f := range p.FuncFile {
			for _, sf := range pc.SweepFiles {
				if f == sf {
					set[id] = true
					sweep[id] = true
				}
			}
			for _, sf := range pc.SharedSweepFiles {
				if f == sf {
					set[id] = true
				}
			}
		}
	}
	// closures are verified where they run: inlined into the enclosing function or at the call site that
	// receives them; only goroutine bodies are verified on their own
	goTargets := p.goTargetFuncs()
	for id := range set {
		if fn := p.Funcs[id]; fn != nil && fn.Parent() != nil && !goTargets[fn] {
			// ... and closures that carry a contract of their own (callbacks handed to library functions)
			if _, own := p.Contracts.Funcs[id]; !own {
				continue
			}
		}
		ids = append(ids, id)
	}
	sort.Strings(ids)
	return
}

var safetyKinds = map[string]bool{"nil": true, "index": true, "slice": true, "makelen": true, "mapnilwrite": true, "typeassert": true,
	"divzero": true, "shift": true, "panic": true, "alloc": true, "gorecover": true, "dec": true, "pre": true, "typeinv": true, "lock.reentry": true, "lock.release": true, "lock.held": true, "lock.order": true}

// obligationServes decides whether obligation o of function result r counts for the property.
func obligationServes(p *Program, prop string, pc *PropConfig, r *FuncResult, o *Obligation, sweep map[string]bool) bool {
	if o.Kind == "cover" {
		return true
	}
	if len(o.Props) > 0 {
		return hasProp(o.Props, prop)
	}
	if o.Clause != nil && len(o.Clause.Props) > 0 {
		return hasProp(o.Clause.Props, prop)
	}
	fprops := []string{}
	if r.Contract != nil {
		fprops = r.Contract.Props
	}
	// inherited interface obligations carry the interface contract's props
	if strings.HasPrefix(strings.TrimPrefix(o.ID, r.ID+"#"), "refine.") {
		for _, iid := range r.Inherit {
			short := iid[strings.Index(iid, ".")+1:]
			if strings.HasPrefix(strings.TrimPrefix(o.ID, r.ID+"#"), "refine."+short+".") {
				if ic := p.Contracts.Funcs[iid]; ic != nil {
					return hasProp(ic.Props, prop)
				}
			}
		}
	}
	if o.Kind == "dec" && strings.Contains(o.ID, "#dec.missing@") {
		// "every loop that is not a range needs a decreases clause" is the rule of parser totality only
		return prop == "C07" && (sweep[r.ID] || hasProp(fprops, "C07"))
	}
	if hasProp(fprops, prop) {
		// lock-discipline obligations belong to the properties that are about concurrency / failure atomicity
		if strings.HasPrefix(o.Kind, "lock.") || o.Kind == "typeinv" {
			return prop == "C13" || prop == "C08" || (prop == "C15" && (strings.HasPrefix(o.ID[strings.Index(o.ID, "#")+1:], "lock.leak") || strings.HasPrefix(o.ID[strings.Index(o.ID, "#")+1:], "lock.defer")))
		}
		if o.Kind == "gorecover" {
			return prop == "C07" || prop == "C13"
		}
		return true
	}
	if pc != nil && o.Kind == "lock.held" && (strings.Contains(o.ID, "#lock.unclassified@") || strings.Contains(o.ID, "#lock.shared@")) {
		for _, sf := range pc.SharedSweepFiles {
			if p.FuncFile[r.ID] == sf {
				return true
			}
		}
	}
	if sweep[r.ID] && safetyKinds[o.Kind] {
		if pc != nil && len(pc.SweepKinds) > 0 {
			return hasProp(pc.SweepKinds, o.Kind)
		}
		return true
	}
	return false
}

type ReplayFile struct {
	Property   string            `json:"property"`
	Obligation string            `json:"obligation"`
	Function   string            `json:"function"`
	Kind       string            `json:"kind"`
	Position   string            `json:"position"`
	Clause     string            `json:"clause"`
	Status     string            `json:"solver_status"`
	Solver     string            `json:"solver"`
	Output     string            `json:"solver_output"`
	Model      map[string]string `json:"model,omitempty"`
	Query      string            `json:"smt_query"`
	Test       string            `json:"generated_test,omitempty"`
	TestOutput string            `json:"test_output,omitempty"`
	TestPkg    string            `json:"test_pkg,omitempty"`
	Verdict    string            `json:"verdict"`
	InBaseline bool              `json:"in_baseline"`
}

func cmdCheck(args []string) int {
	fs := flag.NewFlagSet("check", flag.ExitOnError)
	tier := fs.String("tier", "", "quick|thorough")
	writeBaseline := fs.Bool("write-baseline", false, "maintenance: record the obligations discharged now as baseline")
	// flags may follow the property id
	var flags, pos []string
	for i := 0; i < len(args); i++ {
		if strings.HasPrefix(args[i], "-") {
			flags = append(flags, args[i])
			if (args[i] == "--tier" || args[i] == "-tier") && i+1 < len(args) {
				flags = append(flags, args[i+1])
				i++
			}
		} else {
			pos = append(pos, args[i])
		}
	}
	fs.Parse(append(flags, pos...))
	if fs.NArg() < 1 {
		usage()
	}
	prop := fs.Arg(0)
	if *tier == "" {
		*tier = os.Getenv("VERIF_TIER")
	}
	if fs.NArg() > 1 && *tier == "" {
		*tier = fs.Arg(1)
	}
	if *tier != "thorough" {
		*tier = "quick"
	}
	seed, _ := strconv.Atoi(os.Getenv("VERIF_SEED"))
	start := time.Now()
	props := loadProps()
	pc := props[prop]
	p, err := LoadProgram(repoDir(), verifDir()+"/specs")
	if err != nil {
		fmt.Println("CHECK-BROKEN: cannot load /repo:", err)
		return 2
	}
	for _, e := range p.Contracts.Errors {
		fmt.Println("CONTRACT-ERROR:", e)
	}
	ids, sweep := p.selectFunctions(prop, pc)
	if len(ids) == 0 {
		fmt.Printf("CHECK-BROKEN: no function under contract serves %s\n", prop)
		return 2
	}
	if pc != nil && pc.Alloc {
		for id := range sweep {
			p.allocChecks[id] = true
		}
	}
	for id, fc := range p.Contracts.Funcs {
		for _, n := range fc.Notes {
			if strings.HasPrefix(n, "allocbound ") {
				if b, err := strconv.ParseInt(strings.TrimSpace(n[11:]), 10, 64); err == nil {
					p.allocBounds[id] = b
				}
			}
			if n == "alloccheck" {
				p.allocChecks[id] = true
			}
		}
	}
	var results []*FuncResult
	for _, id := range ids {
		results = append(results, p.VerifyFunction(id))
	}
	// keep only obligations that serve this property
	// Obligations of the selected functions that serve other properties are assumed by the later obligations of
	// the same function (assume-after-assert). They are solved too (marked Unserved): when one of them fails,
	// the served obligations that assumed it are decided again without that assumption.
	total := 0
	for _, r := range results {
		var keep []*Obligation
		nServed := 0
		for _, o := range r.Obls {
			if obligationServes(p, prop, pc, r, o, sweep) {
				keep = append(keep, o)
				nServed++
			} else if o.Kind != "cover" && o.AssumeIdx >= 0 {
				o.Unserved = true
				keep = append(keep, o)
			}
		}
		if nServed == 0 {
			keep = nil
		}
		r.Obls = keep
		total += nServed
	}
	// every obligation of the unchanged tree is discharged in a few seconds on an idle machine; the limits leave a
	// tenfold margin for a loaded one (a timeout of a baseline obligation counts as a violation)
	timeout := 45 * time.Second
	both := false
	if *tier == "thorough" {
		timeout = 120 * time.Second
		both = true
	}
	known := loadKnown()
	knownByObl := map[string]KnownFinding{}
	knownIDs := map[string]bool{}
	for _, k := range known {
		// a finding is identified by its obligation; the properties listed with it are informative (the same
		// failing obligation may serve several properties)
		if k.Status == "known" {
			knownByObl[k.Obligation] = k
			knownIDs[k.Obligation] = true
		}
	}
	if pc != nil {
		// obligations listed as never proved get the same short round as known findings
		for _, u := range pc.Unproved {
			knownIDs[u] = true
		}
	}
	out := tmpOutDir()
	defer os.RemoveAll(out)
	SolveAll(results, SolveOptions{Timeout: timeout, Both: both, OutDir: out, Workers: 5, Known: knownIDs})

	// further rounds: obligations that relied on an assumption which is no longer established are decided again
	// without it. This is iterated, because an unserved obligation that was only discharged thanks to such an
	// assumption fails in the next round and its own assumption has to go as well.
	for round := 0; round < 5; round++ {
		var again []*FuncResult
		for _, r := range results {
			drop := map[int]bool{}
			var why []string
			for _, o := range r.Obls {
				if o.Unserved && !o.OK() && !knownIDs[o.ID] && o.AssumeIdx >= 0 {
					drop[o.AssumeIdx] = true
					why = append(why, strings.TrimPrefix(o.ID, r.ID+"#"))
				}
			}
			if len(drop) == 0 {
				continue
			}
			if os.Getenv("GOVC_DEBUG") != "" {
				fmt.Printf("DEBUG: round %d: %s: dropping assumptions of %v\n", round, r.ID, why)
			}
			redo := false
			for _, o := range r.Obls {
				if !o.OK() || o.Result.Solver == "trivial" || knownIDs[o.ID] || o.Kind == "cover" {
					continue
				}
				uses, already := false, true
				for i := range drop {
					if i < o.NAssume {
						uses = true
						if !o.Drop[i] {
							already = false
						}
					}
				}
				if !uses || already {
					continue
				}
				nd := map[int]bool{}
				for i := range drop {
					nd[i] = true
				}
				o.Drop = nd
				o.Result = SolveResult{}
				o.Note = "decided without the assumption(s) left by " + strings.Join(why, ", ") + " (obligations of other properties in the same function that are no longer discharged)"
				redo = true
			}
			if redo {
				again = append(again, r)
			}
		}
		if len(again) == 0 {
			break
		}
		SolveAll(again, SolveOptions{Timeout: timeout, Both: both, OutDir: out, Workers: 5, Known: knownIDs})
	}
	for _, r := range results {
		var keep []*Obligation
		for _, o := range r.Obls {
			if !o.Unserved {
				keep = append(keep, o)
			}
		}
		r.Obls = keep
	}

	// Second opinion for functions that now call something without a contract which the recorded tree did not call:
	// the verifier havocs the whole heap at such a call, so every later obligation may fail for no reason in the
	// code. The failing obligations of such a function are decided once more with the new unknown callees taken as
	// free of effects; what is discharged then depends on nothing but the unknown effects and is reported as
	// undecided (the callee needs a contract), what still fails is a violation in its own right.
	needsContract := map[string]string{}
	if bu := loadBaselineUnknown(prop); bu != nil && !*writeBaseline {
		for _, r := range results {
			var fresh []string
			for _, u := range r.Used {
				if strings.HasPrefix(u, "uncontracted:") {
					if c := strings.TrimPrefix(u, "uncontracted:"); !bu[r.ID+" "+c] {
						fresh = append(fresh, c)
					}
				}
			}
			failing := map[string]bool{}
			for _, o := range r.Obls {
				if o.Kind != "cover" && !o.OK() && !knownIDs[o.ID] && o.Result.Solver != "trivial" {
					failing[o.ID] = true
				}
			}
			if len(fresh) == 0 || len(failing) == 0 {
				continue
			}
			sort.Strings(fresh)
			p.optimistic = map[string]bool{}
			for _, c := range fresh {
				p.optimistic[c] = true
			}
			r2 := p.VerifyFunction(r.ID)
			p.optimistic = nil
			var keep []*Obligation
			for _, o := range r2.Obls {
				if failing[o.ID] {
					keep = append(keep, o)
				}
			}
			r2.Obls = keep
			SolveAll([]*FuncResult{r2}, SolveOptions{Timeout: timeout, Both: both, OutDir: out, Workers: 5, Known: knownIDs})
			for _, o := range r2.Obls {
				if o.OK() {
					needsContract[o.ID] = strings.Join(fresh, ", ")
				}
			}
		}
	}

	// A known finding is identified by its exact obligation id. Harmless edits renumber returns and back edges;
	// so that they do not turn a recorded defect into an alarm, a failing obligation of the same clause of the same
	// function also counts as that finding as long as the clause does not fail on more paths than are recorded.
	knownPerClause := map[string][]KnownFinding{}
	for _, k := range known {
		if k.Status == "known" {
			knownPerClause[clauseKey(k.Obligation)] = append(knownPerClause[clauseKey(k.Obligation)], k)
		}
	}
	failingPerClause := map[string]int{}
	for _, r := range results {
		for _, o := range r.Obls {
			if o.Kind != "cover" && !o.OK() {
				failingPerClause[clauseKey(o.ID)]++
			}
		}
	}
	for _, r := range results {
		for _, o := range r.Obls {
			if o.Kind == "cover" || o.OK() {
				continue
			}
			if _, exact := knownByObl[o.ID]; exact {
				continue
			}
			ck := clauseKey(o.ID)
			if ks := knownPerClause[ck]; len(ks) > 0 && failingPerClause[ck] <= len(ks) {
				k := ks[0]
				k.What += " (recorded as " + k.Obligation + "; paths renumbered)"
				knownByObl[o.ID] = k
			}
		}
	}
	baseline := loadBaseline(prop)
	baselineKeys := map[string]bool{}
	for id := range baseline {
		baselineKeys[clauseKey(id)] = true
	}
	replayDir := filepath.Join(verifDir(), "replays", prop)
	exit := 0
	var nObl, nDis, nCover, nCoverOK, nViol, nUndec, nSkipped int
	var knownReported, undecided, violations, notClaimed []string
	bySolver := map[string]int{}
	byKind := map[string]int{}
	var solverTime, maxTime float64
	var samples []map[string]interface{}
	seenNow := map[string]bool{}
	var funcsUnder []map[string]interface{}
	assumptions := map[string]bool{}
	for _, r := range results {
		if r.Panic != "" {
			fmt.Printf("ENGINE-ERROR: %s: %s\n", r.ID, r.Panic)
			undecided = append(undecided, r.ID+" (engine error: "+r.Panic+")")
		}
		for _, ce := range r.CErrors {
			fmt.Printf("CONTRACT-ERROR: %s\n", ce)
		}
		for _, n := range r.Notes {
			assumptions["note: "+r.ID+": "+n] = true
		}
		for _, u := range r.Used {
			assumptions[u] = true
		}
		if r.Contract != nil {
			funcsUnder = append(funcsUnder, map[string]interface{}{"function": r.ID, "file": r.File, "arith": "int (mathematical integers, every Go operation wrapped to its width)",
				"clauses": len(r.Contract.Requires) + len(r.Contract.Ensures), "loops_with_invariant": len(r.Contract.Loops), "inherits": r.Inherit})
		} else if len(r.Obls) > 0 {
			funcsUnder = append(funcsUnder, map[string]interface{}{"function": r.ID, "file": r.File, "clauses": 0, "safety_sweep_only": true, "inherits": r.Inherit})
		}
		for _, o := range r.Obls {
			seenNow[o.ID] = true
			if o.Kind == "cover" {
				nCover++
				if o.OK() {
					nCoverOK++
				} else {
					fmt.Printf("VACUITY: %s: preconditions not shown satisfiable (%s)\n", o.ID, o.Result.Status)
					undecided = append(undecided, o.ID+" (cover query "+o.Result.Status+")")
				}
				continue
			}
			byKind[o.Kind]++
			solverTime += o.Result.Time
			if o.Result.Time > maxTime {
				maxTime = o.Result.Time
			}
			if k, isKnown := knownByObl[o.ID]; isKnown {
				if o.OK() {
					fmt.Printf("NOTE: known finding no longer reproduces: property=%s %s\n", prop, o.ID)
					nObl++
					nDis++
					bySolver[o.Result.Solver]++
				} else {
					fmt.Printf("KNOWN-FINDING: property=%s %s: %s\n", prop, o.ID, k.What)
					knownReported = append(knownReported, o.ID)
				}
				continue
			}
			nObl++
			if o.OK() {
				nDis++
				bySolver[o.Result.Solver]++
				if len(samples) < 5 && o.Result.Solver != "trivial" {
					samples = append(samples, map[string]interface{}{"obligation": o.ID, "kind": o.Kind, "clause": o.Desc, "position": o.Pos,
						"smt_bytes": len(o.Query), "solver": o.Result.Solver, "time_s": o.Result.Time})
				}
				continue
			}
			if pc != nil && hasProp(pc.Unproved, o.ID) {
				fmt.Printf("UNDECIDED: property=%s %s (%s; listed as never proved by this machinery)\n", prop, o.ID, o.Result.Status)
				undecided = append(undecided, o.ID+" ("+o.Result.Status+", never proved)")
				nUndec++
				nObl-- // stated in a contract but not claimed: not part of the obligations this check speaks for
				notClaimed = append(notClaimed, o.ID)
				continue
			}
			if nc, ok := needsContract[o.ID]; ok {
				fmt.Printf("UNDECIDED: property=%s %s (%s only because of the unknown effects of %s, which this function did not call in the recorded tree and which has no contract: discharged when the callee is taken as free of effects)\n", prop, o.ID, o.Result.Status, nc)
				undecided = append(undecided, o.ID+" (depends on the unknown effects of "+nc+")")
				nUndec++
				continue
			}
			if o.Result.Status == "skipped" {
				fmt.Printf("UNDECIDED: property=%s %s (%s)\n", prop, o.ID, o.Result.Output)
				undecided = append(undecided, o.ID+" (not attempted)")
				nUndec++
				nSkipped++
				continue
			}
			inBase := baseline != nil && baseline[o.ID]
			if !inBase && baseline != nil && !siteKinds[o.Kind] && baselineKeys[clauseKey(o.ID)] {
				// the same clause was discharged on every path of the recorded tree: a new path that fails it counts
				inBase = true
			}
			isSat := o.Result.Status == "sat"
			if !isSat && baseline != nil && !inBase {
				// a failed proof of something never proved before is not a violation
				fmt.Printf("UNDECIDED: property=%s %s (%s)\n", prop, o.ID, o.Result.Status)
				undecided = append(undecided, o.ID+" ("+o.Result.Status+")")
				nUndec++
				continue
			}
			// violation
			nViol++
			os.MkdirAll(replayDir, 0o755)
			rf := ReplayFile{Property: prop, Obligation: o.ID, Function: o.Func, Kind: o.Kind, Position: o.Pos, Clause: o.Desc,
				Status: o.Result.Status, Solver: o.Result.Solver, Output: truncate(o.Result.Output, 20000), Model: o.Result.Model,
				Query: o.Query, Verdict: "not-replayed", InBaseline: inBase}
			suffix := " no-failing-input-found"
			if isSat {
				if ok := tryReplay(p, r, o, &rf); ok {
					suffix = ""
				}
			}
			path := filepath.Join(replayDir, sanitizeFile(o.ID)+".json")
			data, _ := json.MarshalIndent(rf, "", " ")
			os.WriteFile(path, data, 0o644)
			fmt.Printf("VIOLATION property=%s replay=%s%s\n", prop, path, suffix)
			fmt.Printf("  obligation %s (%s) at %s: %s [%s by %s]\n", o.ID, o.Kind, o.Pos, o.Desc, o.Result.Status, o.Result.Solver)
			if o.Note != "" {
				fmt.Printf("    %s\n", o.Note)
			}
			violations = append(violations, o.ID)
			exit = 1
		}
	}
	// baseline obligations that disappeared
	var missing []string
	for id := range baseline {
		if !seenNow[id] {
			if _, k := knownByObl[id]; !k {
				missing = append(missing, id)
			}
		}
	}
	sort.Strings(missing)
	for _, m := range missing {
		fmt.Printf("UNDECIDED: property=%s %s (obligation of the baseline no longer generated)\n", prop, m)
		undecided = append(undecided, m+" (no longer generated)")
	}
	if baseline != nil && len(missing) > 0 {
		// a function that had obligations and now has none: the check cannot speak for it
		lost := map[string]bool{}
		for _, m := range missing {
			lost[strings.SplitN(m, "#", 2)[0]] = true
		}
		for f := range lost {
			still := false
			for id := range seenNow {
				if strings.HasPrefix(id, f+"#") {
					still = true
				}
			}
			if !still {
				fmt.Printf("CHECK-BROKEN: function %s lost all obligations (renamed or removed?)\n", f)
				if exit == 0 {
					exit = 2
				}
			}
		}
	}
	if nSkipped > 0 && nViol == 0 {
		fmt.Printf("CHECK-BROKEN: %d obligations were not attempted after repeated timeouts and no violation was established\n", nSkipped)
		if exit == 0 {
			exit = 2
		}
	}
	if nObl == 0 {
		fmt.Printf("CHECK-BROKEN: zero obligations generated for %s\n", prop)
		return 2
	}
	if *writeBaseline {
		var ids []string
		for _, r := range results {
			for _, o := range r.Obls {
				if o.Kind != "cover" && o.OK() {
					ids = append(ids, o.ID)
				}
			}
		}
		sort.Strings(ids)
		var unk []string
		for _, r := range results {
			for _, u := range r.Used {
				if strings.HasPrefix(u, "uncontracted:") {
					unk = append(unk, "!uncontracted "+r.ID+" "+strings.TrimPrefix(u, "uncontracted:"))
				}
			}
		}
		sort.Strings(unk)
		ids = append(ids, unk...)
		os.MkdirAll(filepath.Join(verifDir(), "baseline"), 0o755)
		os.WriteFile(filepath.Join(verifDir(), "baseline", prop+".txt"), []byte(strings.Join(ids, "\n")+"\n"), 0o644)
		fmt.Printf("baseline written: %d obligations, %d calls without contract\n", len(ids)-len(unk), len(unk))
	}
	// evidence
	level := "proof"
	if pc != nil && pc.Level != "" {
		level = pc.Level
	}
	var assume []string
	for a := range assumptions {
		assume = append(assume, a)
	}
	assume = append(assume,
		"SSA->VC translation (govc) is unverified; guarded by the must-fail corpus (govc selftest) and cover queries",
		"integers are mathematical Ints with every Go arithmetic result wrapped to the operand width (exact two's complement); |, ^, variable shifts are uninterpreted",
		"strings are an uninterpreted sort with length, literal distinctness, concat length; no character-level reasoning",
		"dependencies follow the assumed contracts in /verif/specs (listed individually above when used)",
		"goroutine interleavings are not explored: shared state is covered only by the lock-discipline obligations",
	)
	sort.Strings(assume)
	trusted := []string{"z3 4.8.12 / z3 5.1.0 / cvc5 1.0 (SMT back ends)", "golang.org/x/tools/go/ssa v0.29.0 (SSA construction)", "govc VC generator", "assumed contracts in /verif/specs"}
	cov := map[string]interface{}{
		"obligations": nObl, "discharged": nDis,
		"checker_cmd":              fmt.Sprintf("/verif/bin/govc check %s --tier %s", prop, *tier),
		"trusted_base":             trusted,
		"functions_under_contract": funcsUnder,
		"obligations_by_kind":      byKind,
		"by_solver":                bySolver,
		"solver_time_s":            map[string]float64{"sum": round2(solverTime), "max": round2(maxTime)},
		"undecided":                undecided,
		"stated_but_not_claimed":   notClaimed,
		"known_failing":            knownReported,
		"violations":               violations,
		"cover_queries":            map[string]int{"count": nCover, "sat": nCoverOK},
		"samples":                  samples,
		"bounded_standins":         []string{},
		"evaluations":              nObl,
		"distinct_nontrivial":      nonTrivial(results),
		"rule":                     "one evaluation = one named proof obligation generated from /repo's SSA; non-trivial = needed a solver call (not syntactically true)",
	}
	if pc != nil {
		if len(pc.Bounded) > 0 {
			cov["bounded_standins"] = pc.Bounded
		}
		if len(pc.Undecided) > 0 {
			cov["clauses_not_decided_by_this_technique"] = pc.Undecided
		}
	}
	if nDis != nObl || level != "proof" {
		if level == "proof" {
			level = "other"
		}
		cov["explanation"] = fmt.Sprintf("contract-based deductive verification: %d of %d obligations discharged; %d undecided, %d violations; see undecided/violations", nDis, nObl, nUndec, nViol)
	}
	ev := map[string]interface{}{"property_id": prop, "tier": *tier, "seed": seed, "level": level, "coverage": cov,
		"assumptions": assume, "wall_s": round2(time.Since(start).Seconds()), "violations": nViol}
	os.MkdirAll(filepath.Join(verifDir(), "evidence"), 0o755)
	data, _ := json.MarshalIndent(ev, "", " ")
	os.WriteFile(filepath.Join(verifDir(), "evidence", prop+".json"), data, 0o644)
	fmt.Printf("%s: %d obligations, %d discharged, %d known findings, %d undecided, %d violations, %.1fs (%s)\n",
		prop, nObl, nDis, len(knownReported), nUndec+len(missing), nViol, time.Since(start).Seconds(), *tier)
	return exit
}

func nonTrivial(results []*FuncResult) int {
	n := 0
	for _, r := range results {
		for _, o := range r.Obls {
			if o.Result.Solver != "trivial" && o.Kind != "cover" {
				n++
			}
		}
	}
	return n
}

func round2(f float64) float64 { return float64(int(f*100+0.5)) / 100 }

func truncate(s string, n int) string {
	if len(s) > n {
		return s[:n] + "…"
	}
	return s
}
